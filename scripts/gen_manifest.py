#!/usr/bin/env python3
"""Writes /verif/MANIFEST.json from the table below (keeps it valid and in one place)."""
import json, subprocess

HOOK_COMMITS = subprocess.check_output(
    ["git", "-C", "/repo", "log", "--format=%H", "--grep=^verif_hooks"], text=True).split()

LEVEL_TEXT = {
 "C01": "Seeded deterministic simulation: the real canister is driven through heartbeats/replies by a simulated block source over fork-heavy histories (all script kinds, prefix address pairs, re-mined transactions, same-block spends, slicing, upgrades); after every event every wallet address is queried (page-size knob and the real 1000 limit) and compared with an independent ledger replay at the tip the response names. Sampling, not proof.",
 "C02": "Seeded simulation with per-block difficulty assignments (hook H5); after every event get_blockchain_info, unfiltered get_utxos, get_balance and get_block_headers (and, on request events, the fee percentiles) are compared with a brute-force best path of the model fork tree.",
 "C03": "Seeded simulation; every observed anchor advance must be allowed by an independent evaluation of the stability rule on the model tree as it stood (incl. scripted two-branch races of up to 1700 blocks reaching the testnet/regtest depth bound), no due advance may be left undone by a completed heartbeat, stable height never regresses and the stable record (header store) holds, at every stable height, exactly the block that stabilised there; forks vanish only at the advance; includes set_config threshold changes, also while the anchor's ingestion is paused (scripted opening).",
 "C04": "Seeded simulation; for every c in 0..=len+2 the response of get_utxos(min_confirmations=c) is compared with the model's cut block (depth / competitor depth on the model tree) and the ledger there; fork-free sanity oracle.",
 "C05": "Seeded simulation; cross-endpoint equality get_balance == sum(get_utxos all pages) for all addresses (incl. malformed / wrong network) and all c, query vs update variants, at every check point including paused ingestion.",
 "C06": "Seeded simulation with stateful client sessions whose page requests are interleaved with block arrivals, fork growth, stabilisation and upgrades; per-session history check against the ledger at the first tip; arbitrary page blobs never trap.",
 "C07": "Seeded simulation; after every event (incl. every pause point of a sliced ingestion and right after upgrades) header ranges over a grid of (start,end) are compared with stable chain ++ best path; documented errors.",
 "C08": "Seeded simulation with adversarial per-message instruction budgets (pause after k slice checks); read-API snapshot at every pause equals the snapshot before ingestion began, no fetch/processing during ingestion, bounded rounds, and equality with an unsliced twin run; one run in 16 enumerates ALL sets of pause positions inside one small stabilising block (n <= 8 slice checks, thorough 10).",
 "C09": "Seeded simulation with upgrades injected at every message boundary (call in flight, partial pages, complete response stored, ingestion paused); snapshot before == after, fetch state reset, other oracles keep holding afterwards (attributed to C09 only if the same trace without upgrades is clean).",
 "C10": "Seeded simulation with an adversarial block source (duplicates, orphans, stable-only parents, wrong order, truncated/garbage bytes, invalid headers/bodies, garbage/short/padded announced headers); the canister's unstable set must equal the model's admission verdicts, counters move by exactly one on a reject, no heartbeat traps.",
 "C13": "Seeded simulation of the fetch protocol: replies withheld while further heartbeats/upgrades run, page scripts 0..255, rejects at every step; single outstanding request, request grammar, bit-identical reassembly, no double application, bounded liveness after faults stop.",
 "C14": "Seeded simulation with config toggles, wrong-network requests and announced-header histories; refusal iff the model's gate predicate says so, refusals have no effect, get_config/get_blockchain_info always answer.",
 "C15": "Seeded simulation with fee-paying legacy/segwit transactions, reorgs, eager/lazy mode, upgrades; answers compared with nearest-rank percentiles of the model's best-chain window (exact in lazy mode; in eager mode exactly the value cached by the message that made the block the best tip, otherwise a window of the current tip).",
 "C16": "Seeded simulation of paid calls through the cycles seam (hook H3) with attached amounts around the maximum, instruction counter values around the cap (hook H2), fee tables changed mid-run, request-level errors, and the real ic-cdk-bitcoin-canister cost_* amounts in both spellings of the network.",
 "C19": "Seeded simulation of send_transaction with well-formed (incl. repeated, same-txid-other-witness, amounts up to 2^64), truncated, extended, bit-flipped and prefixed payloads under access/network configurations; forwarded payload recorded at the call seam and compared with a strict decode/re-encode oracle.",
 "C20": "Seeded simulation over fork-heavy histories with discarded forks (incl. forks of 100+ blocks discarded at once), shared transactions, announced headers and upgrades; the canister's bookkeeping (read through serde of its pub state and a second handle on the block cache) must equal what the model tree requires after every event.",
 "C11": "Seeded simulation; header admission through the real heartbeat path (blocks and announced headers) compared with an independent implementation of the consensus header rules (median-time-past, +2h, max target, work, required target incl. retarget/BIP94/min-difficulty walk-back) on regtest (real proof of work), testnet4 and mainnet (synthetic proof of work, hook H6).",
 "C17": "Seeded simulation of the real watchdog round (fetch via ic-http mock transport + transforms, storage, health, api-access synchronisation) against stub explorers with failures and a stub canister with failing calls; decision compared with an independent model on the latest round only; order independence by permutation.",
}

NOTES = "Trusted base: rust-bitcoin (de)serialisation, sha256d, address encoding (shared by model and code); the simulator's model of the IC (one message = one uninterrupted call, trap = no effect); hooks listed in MANIFEST.hooks. Not covered: candid at the canister boundary, wasm/ic0, replica DTS, /metrics."

TECH = "deterministic simulation with fault injection (seeded schedule/fault search, reference-model oracle, minimised replay)"

def check(pid):
    return {
        "property_id": pid,
        "quick_cmd": f"./check {pid} quick",
        "thorough_cmd": f"./check {pid} thorough",
        "evidence_file": f"/verif/evidence/{pid}.json",
        "replay_cmd_template": "./check --replay {path}",
        "engine": "btcsim",
        "level_claimed": {"category": "exploration", "text": LEVEL_TEXT[pid], "design_ref": f"DESIGN.md section 8 ({pid})"},
        "level_note": NOTES,
        "technique": TECH,
    }

import sys
claimed = sys.argv[1].split(",") if len(sys.argv) > 1 else []
na = [
    {"property_id": "C12", "reason": "validate_block is a pure function of one block's bytes: no schedule, clock, peer, fault or crash point can change its verdict; deterministic simulation has nothing to decide beyond input generation (DESIGN.md section 9)"},
    {"property_id": "C18", "reason": "each watchdog HTTP transform is a pure function of one HTTP response (for-all over inputs plus a metamorphic equality); no seam, time, interleaving or fault is involved (DESIGN.md section 9)"},
]
for pid in ["C11", "C17"]:
    if pid not in claimed:
        na.append({"property_id": pid, "reason": "simulation check for this property is still under construction in this commit (planned: DESIGN.md section 8); not claimed yet"})

manifest = {
    "version": 1,
    "setup_cmd": "cd /verif/sim && CARGO_NET_OFFLINE=true cargo build --release --offline && cd /verif && ./target/release/btcsim selftest-determinism --seeds 8",
    "hooks": {
        "guard": "cargo feature verif_hooks (crates ic-btc-canister, ic-btc-types, ic-btc-validation, watchdog); off by default",
        "enable": "the simulator crate /verif/sim depends on the /repo crates by path with features = [\"verif_hooks\"] (and the existing mock_time feature)",
        "baseline_off_cmd": "cd /repo && cargo test --workspace --no-fail-fast --offline",
        "source_commits": HOOK_COMMITS,
        "add_only": True,
    },
    "engines": [{"name": "btcsim", "path": "/verif/sim", "serves_properties": claimed, "kind_free_text": "seeded deterministic simulator: real canister/watchdog code in one process, stub network/adapter/clients/explorers, reference model, fault injection, trace minimiser, replay"}],
    "checks": [check(p) for p in claimed],
    "not_applicable": na,
    "notes": "Known findings (genuine defects recorded, not repaired) are in /verif/known_findings.json; 'fix:' commits in /repo are listed there as fixed entries. VERIF_SEED selects the batch seed (default 0x0B17C0DE).",
}
json.dump(manifest, open("/verif/MANIFEST.json", "w"), indent=1)
print("MANIFEST.json:", len(claimed), "checks,", len(na), "not applicable")
