#!/bin/bash
# usage: scripts/confirm_seeded.sh <src dir with patch.diff demo.diff> <crate>   (crate: ic-btc-canister | ic-btc-validation | watchdog ...)
# Confirms a seeded change in a scratch worktree of /repo HEAD: compiles, the crate's stable_pass
# tests still pass, the demo fails with the change and passes without it. Prints one RESULT line.
src="$1"; crate="${2:-ic-btc-canister}"
wt=/tmp/wt/confirm
if [ ! -d "$wt" ]; then git -C /repo worktree add -q --detach "$wt" HEAD || exit 2; fi
cd "$wt" || exit 2
git checkout -q --detach "$(git -C /repo rev-parse HEAD)" 2>/dev/null
git checkout -q -- . ; git clean -fdq -e target
export CARGO_TARGET_DIR=$wt/target CARGO_NET_OFFLINE=true
name=$(basename "$src")
log=/var/tmp/confirm-$name.log; : > "$log"
apply() { git apply "$1" 2>>"$log" || git apply --3way "$1" 2>>"$log"; }
# 1. patch applies + suite
if ! apply "$src/patch.diff"; then echo "RESULT $name patch-does-not-apply"; git checkout -q -- .; exit 1; fi
git diff > /tmp/confirm-patch-$name.diff
extra=""; [ "$crate" = "ic-btc-canister" ] && extra="--lib --bins"
for sc in ${SUITE_CRATES:-$crate}; do
  e=""; [ "$sc" = "ic-btc-canister" ] && e="--lib --bins"
  cargo test -p "$sc" --offline -j 10 --no-fail-fast $e >>"$log" 2>&1
done
suite=$(python3 - "$log" "${SUITE_CRATES:-$crate}" <<'PY'
import json,re,sys
log=open(sys.argv[1]).read(); crates=sys.argv[2].split()
b=json.load(open('/root/.vp/BASELINE.json'))
sp=[s for s in b['stable_pass'] if any(s.startswith(c+'::') for c in crates)]
res={}
for m in re.finditer(r'^test (\S+)(?: - should panic)? \.\.\. (ok|FAILED|ignored)',log,re.M): res[m.group(1)]=m.group(2)
def ok(s):
    name=re.sub(r'^bin/[^:]+::','',s.split('::',1)[1])
    alt=name.split('::',1)[1] if '::' in name else name   # integration-test binaries: <binary>::<test>
    return res.get(name)=='ok' or res.get(alt)=='ok'
bad=[s for s in sp if not ok(s)]
print('suite-ok' if not bad and sp else 'suite-BROKEN:'+','.join(bad[:3]))
PY
)
# 2. demo with the patch: must fail
if ! apply "$src/demo.diff"; then echo "RESULT $name $suite demo-does-not-apply"; git checkout -q -- .; git clean -fdq -e target; exit 1; fi
demo_tests=$(git diff --name-only; git ls-files --others --exclude-standard | grep -v '^target')
run_demo() { cargo test -p "$crate" --offline -j 10 --no-fail-fast $extra --features "${DEMO_FEATURES:-}" "${DEMO_FILTER:-demo}" 2>&1; }
# the demo tests are identified by the word 'demo' or 'seeded' in their module/file names
filter=$(grep -ho 'mod [a-z0-9_]*\(demo\|seeded\)[a-z0-9_]*' "$src/demo.diff" | head -1 | awk '{print $2}')
itest=$(grep -o '^+++ b/[a-z-]*/tests/[a-z0-9_]*\.rs' "$src/demo.diff" | head -1 | sed 's#.*/tests/##;s#\.rs##')
if [ -n "$itest" ]; then extra2="--test $itest"; f2=""; filter="$itest";
else
  if [ -z "$filter" ]; then filter=$(grep -o '^+++ b/.*/src/.*/[a-z0-9_]*\.rs' "$src/demo.diff" | head -1 | sed 's#.*/##;s#\.rs##'); fi
  extra2="$extra"; f2="$filter"
fi
cargo test -p "$crate" --offline -j 10 --no-fail-fast $extra2 ${DEMO_FEATURES:+--features $DEMO_FEATURES} $f2 > /tmp/confirm-demo-with.log 2>&1
with=$(grep -c '^test .* FAILED' /tmp/confirm-demo-with.log)
withok=$(grep -c '^test .* ok' /tmp/confirm-demo-with.log)
# 3. demo without the patch: must pass
git apply -R /tmp/confirm-patch-$name.diff 2>>"$log" || { echo "RESULT $name cannot-revert-patch"; git checkout -q -- .; git clean -fdq -e target; exit 1; }
cargo test -p "$crate" --offline -j 10 --no-fail-fast $extra2 ${DEMO_FEATURES:+--features $DEMO_FEATURES} $f2 > /tmp/confirm-demo-without.log 2>&1
without_fail=$(grep -c '^test .* FAILED' /tmp/confirm-demo-without.log)
without_ok=$(grep -c '^test .* ok' /tmp/confirm-demo-without.log)
git checkout -q -- . ; git clean -fdq -e target
echo "RESULT $name $suite demo-filter=$filter with-patch:failed=$with,ok=$withok without-patch:failed=$without_fail,ok=$without_ok"
