#!/usr/bin/env python3
"""usage: add_seeded.py <table.json> <src dir> <confirm result file> <batch result file>
Copies confirmed seeded changes of a later round into /verif/seeded/<id>/ with a meta.json.
table.json: {id: [property, change, needs_to_manifest, note]}"""
import json, os, re, shutil, sys
table = json.load(open(sys.argv[1])); SRC = sys.argv[2]; DST = '/verif/seeded'
confirm = {}
for l in open(sys.argv[3]):
    m = re.match(r'RESULT (\S+) (\S+) demo-filter=(\S+) with-patch:failed=(\d+),ok=(\d+) without-patch:failed=(\d+),ok=(\d+)', l)
    if m:
        confirm[m.group(1)] = dict(suite=m.group(2), demo=m.group(3), wf=int(m.group(4)), wo_f=int(m.group(6)), wo_ok=int(m.group(7)))
caught = {}
for l in open(sys.argv[4]):
    p = l.split()
    if len(p) >= 2:
        k = re.search(r'violation kind=(\S+)', l)
        caught[p[0]] = (p[1], k.group(1) if k else '')
kept = []
for mid, (prop, what, needs, note) in table.items():
    src = f'{SRC}/{mid}'; c = confirm.get(mid)
    ok = c and c['suite'] == 'suite-ok' and c['wf'] > 0 and c['wo_f'] == 0 and c['wo_ok'] > 0
    if not ok:
        print('NOT CONFIRMED', mid, c); continue
    d = f'{DST}/{mid}'; os.makedirs(d, exist_ok=True)
    for fn in ['patch.diff', 'demo.diff', 'README.md']:
        shutil.copy(f'{src}/{fn}', f'{d}/{fn}')
    res, kind = caught.get(mid, ('?', ''))
    meta = {
        'id': mid, 'property': prop, 'change': what, 'needs_to_manifest': needs, 'round': 4,
        'origin': 'written by a fresh sub-agent that was given only the text of the property (statement, quantifier, code anchors, one-line list of ideas already used) and a scratch worktree of /repo (nothing from /verif)',
        'confirmed_by_me': {
            'how': 'scripts/confirm_seeded.sh in the scratch worktree /tmp/wt/confirm of /repo HEAD: cargo test of the touched crate with the patch (every stable_pass test of BASELINE.json for that crate still ok), then the demonstration test with the patch (fails) and without it (passes)',
            'suite_with_patch': c['suite'], 'demo_test_filter': c['demo'],
            'demo_with_patch': f"{c['wf']} failed line(s)", 'demo_without_patch': f"{c['wo_ok']} ok line(s), {c['wo_f']} failed",
        },
        'detected_by': {'check': f'./check {prop} quick', 'violation_kind': kind, 'first_result_in_round_4': res, 'how_to_rerun': f'scripts/try_mutant.sh /verif/seeded/{mid} {prop} quick'},
        'note': note,
    }
    json.dump(meta, open(f'{d}/meta.json', 'w'), indent=1)
    kept.append(mid)
print('kept', len(kept), kept)
