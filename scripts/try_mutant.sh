#!/bin/sh
# usage: scripts/try_mutant.sh <dir with patch.diff> <Cxx> [quick|thorough] [extra btcsim args]
# Applies the seeded change to /repo, runs the property's check with a scratch VERIF_DIR
# (so that evidence/replays of the real tree are not touched), and always reverts /repo.
set -u
dir="$1"; prop="$2"; tier="${3:-quick}"; shift; shift; [ $# -gt 0 ] && shift
scratch=/var/tmp/mutant-verif
mkdir -p "$scratch" && cp /verif/known_findings.json "$scratch/"
cd /repo || exit 2
if [ -n "$(git status --porcelain --untracked-files=no)" ]; then echo "repo not clean"; exit 2; fi
if ! git apply "$dir/patch.diff" 2>/dev/null; then
  if ! git apply --3way "$dir/patch.diff" 2>/dev/null; then echo "PATCH-DOES-NOT-APPLY $dir"; git checkout -- . ; exit 3; fi
fi
cd /verif/sim && CARGO_NET_OFFLINE=true cargo build --release --offline >/verif/sim/build.log 2>&1
rc=$?
if [ $rc -ne 0 ]; then echo "BUILD-FAILED"; tail -5 /verif/sim/build.log; git -C /repo checkout -- . ; git -C /repo reset -q; exit 4; fi
cd /verif
VERIF_DIR="$scratch" /verif/target/release/btcsim check "$prop" --tier "$tier" "$@" | cut -c1-700
rc=$?
git -C /repo checkout -- . ; git -C /repo reset -q
echo "exit=$rc"
