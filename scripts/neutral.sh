#!/bin/bash
# usage: scripts/neutral.sh <dir with patch.diff> [props...]
# Applies a behaviour-PRESERVING change (one under which every property still holds) to /repo and runs the
# quick checks; every one of them must stay silent (exit 0). Always reverts /repo. Prints one line per check.
dir="$1"; shift
props="${*:-C01 C02 C03 C04 C05 C06 C07 C08 C09 C10 C11 C13 C14 C15 C16 C17 C19 C20}"
scratch=/var/tmp/neutral-verif; mkdir -p $scratch && cp /verif/known_findings.json $scratch/
cd /repo || exit 2
[ -n "$(git status --porcelain --untracked-files=no)" ] && { echo "repo not clean"; exit 2; }
git apply "$dir/patch.diff" || { echo PATCH-DOES-NOT-APPLY; exit 3; }
cd /verif/sim && CARGO_NET_OFFLINE=true cargo build --release --offline >/verif/sim/build.log 2>&1 || { echo BUILD-FAILED; tail -20 /verif/sim/build.log; git -C /repo checkout -- .; exit 4; }
cd /verif; bad=0
for p in $props; do
  out=$(VERIF_DIR=$scratch /verif/target/release/btcsim check $p --tier quick ${NEUTRAL_RUNS:+--runs $NEUTRAL_RUNS} 2>&1); rc=$?
  echo "$(basename $dir) $p exit=$rc $(echo "$out" | grep -o 'violation kind=[^ ]*' | head -1) $(echo "$out" | grep -c '^VIOLATION') violation line(s)"
  [ $rc -ne 0 ] && { bad=1; echo "$out" | grep -v '^KNOWN' | cut -c1-600 | head -12; }
done
git -C /repo checkout -- . ; git -C /repo reset -q
exit $bad
