#!/usr/bin/env python3
"""Copies the confirmed seeded changes into /verif/seeded/<id>/ with a meta.json."""
import json, os, re, shutil, subprocess, sys
SRC = '/tmp/seeded-out'
DST = '/verif/seeded'
INFO = {
 'C01-a': ('C01', "`>` for `>=` in the offset filter of unstable UTXOs", "an address with more UTXOs than a page, the page-boundary UTXO still unstable and of value 0", 'utxo-missing'),
 'C01-b': ('C01', "`serde(skip)` on the in-progress block's UtxosDelta", "upgrade while a stabilising block's ingestion is paused, query before it resumes", 'utxo-duplicated'),
 'C02-a': ('C02', "length-only twin of the main-chain selection forgets the 'more blocks' tie-break", "two sibling branches with equal accumulated difficulty, different lengths, shorter one received first", 'blockchain-info-wrong-tip'),
 'C02-b': ('C02', "get_balance loses the `min_confirmations > 0` guard of the stability cut", "heavy short main branch vs lighter longer fork, unfiltered get_balance", 'balance-other-tip'),
 'C03-a': ('C03', "lead over siblings measured against the weakest sibling", "three-way fork at the anchor, runner-up within the threshold", 'advance-not-due'),
 'C03-b': ('C03', "testnet depth bound returns the raw threshold at >= 1500 unstable blocks", "testnet/regtest, threshold >= 500, two branches racing to >= 1500 unstable blocks, lead between 499 and threshold-1", 'advance-withheld'),
 'C04-a': ('C04', "stability cut guarded by `c > 1`", "fork with a tie at some height, min_confirmations = 1 exactly", 'wrong-cut-block'),
 'C04-b': ('C04', "MinConfirmationsTooLarge bound uses stable height + chain length", "anchor above genesis, unstable length < c <= stable height + length", 'too-large-c-accepted'),
 'C05-a': ('C05', "get_balance stability cut guarded by `c > 1`", "tied fork tips, min_confirmations = 1", 'balance-differs-from-utxo-sum'),
 'C05-b': ('C05', "exclusive start bound of the stable address-index range", "pagination whose page boundary lands in the stable UTXO set", 'balance-differs-from-utxo-sum'),
 'C06-a': ('C06', "page token names chain.tip() instead of the computed tip", "first request with min_confirmations >= 2 and more UTXOs than a page, then follow next_page", 'page-names-other-tip'),
 'C06-b': ('C06', "`<` for `!=` in the page length check", "a page blob longer than 72 bytes (traps in OutPoint::from_bytes)", 'page-bytes-trap'),
 'C07-a': ('C07', "stable header range includes the stable height", "get_block_headers at a pause point of a sliced ingestion, range straddling the boundary", 'header-range-wrong-length'),
 'C07-b': ('C07', "stale local height after a resumed ingestion", "two blocks stable at once, the first one time-sliced, both finished in one call", 'header-range-wrong-length'),
 'C08-a': ('C08', "wrong resume index after a pause inside a transaction's outputs", "stabilising block with a transaction having more inputs than outputs, budget running out inside its outputs", 'heartbeat-trap'),
 'C08-b': ('C08', "header of a time-sliced block never stored", "any sliced ingestion; visible only afterwards through header queries", 'sliced-differs-from-unsliced'),
 'C09-a': ('C09', "`serde(skip)` on the delta's derived indexes", "upgrade exactly between the insertion of a parent's outputs and the removal of a same-block child's inputs", 'after-upgrade:*'),
 'C09-b': ('C09', "fallback fee rate divides by total_size", "segwit transaction in an unstable block, upgrade, then a new tip", 'after-upgrade:C15:fee-percentiles-wrong'),
 'C10-a': ('C10', "median-time-past `<` for `<=`", "block timestamped exactly at its median-time-past", 'unstable-set-mismatch'),
 'C10-b': ('C10', "`break` for `return` after a rejected block", "a reply with a decodable rejected block and a non-empty connectable `next` list", 'state-after-reply:announced-header-leaked'),
 'C11-a': ('C11', "min-difficulty walk-back stops one block too early across a period boundary", "testnet4, three periods: non-limit bits, then a period capped at the limit, a header within 20 minutes of its parent", 'header-admission:*'),
 'C11-b': ('C11', "lower-middle median on short chains", "height 2..10, timestamp between the two middle ancestor times", 'header-admission:*'),
 'C13-a': ('C13', "`then_some` builds and drops a guard on failed acquisition", "three heartbeats overlapping one outstanding call", 'two-outstanding-requests'),
 'C13-b': ('C13', "reject no longer clears the partial response", "Partial, FollowUp, then a reject of a follow-up request", 'stored-response-mismatch'),
 'C14-a': ('C14', "`return` for `continue` on an already announced header", "headers re-announced followed by new ones pushing the announced height above tip + 2", 'answered-while-gated'),
 'C14-b': ('C14', "`abs_diff` in is_synced", "a stale announced header more than 2 below the tip, no fresher header", 'refused-while-open'),
 'C15-a': ('C15', "fallback fee rate divides by total_size", "segwit transaction, upgrade, recomputation", 'fee-percentiles-wrong'),
 'C15-b': ('C15', "window cut `>` for `>=`", "more than 10,000 transactions with the cut inside a block", 'fee-percentiles-wrong'),
 'C16-a': ('C16', "fee-percentile maximum check uses the get_balance maximum", "fee table whose two maxima differ, attached cycles between them", 'underpaid-call-served'),
 'C16-b': ('C16', "multiply before divide in the get_utxos instruction fee", "instruction count not a multiple of ten, rate >= 2", 'wrong-amount-charged'),
 'C17-a': ('C17', "failed fetches are no longer stored (stale heights survive)", "two rounds, an explorer failing in the later one", 'stale-or-wrong-explorer-height'),
 'C17-b': ('C17', "`>=` at the upper edge of the healthy band", "canister exactly blocks_ahead_threshold ahead of the median", 'status-mismatch'),
 'C19-a': ('C19', "verify_synced() added to send_transaction", "sync flag on and announced headers more than 2 above the tip", 'trap-instead-of-error'),
 'C19-b': ('C19', "consensus_decode instead of deserialize", "valid transaction followed by trailing bytes", 'accepted-when-it-must-not'),
 'C20-a': ('C20', "reference count `+= 1` on merge", "parent and child transaction in one block, the same pair also mined on a competing fork", 'tx-out-count-wrong'),
 'C08-c': ('C08', "OP_RETURN outputs filtered before `.skip(start_idx)` in insert_outputs", "transaction with an OP_RETURN output followed by ordinary outputs, pause inside its outputs after the OP_RETURN", 'sliced-differs-from-unsliced'),
 'C08-d': ('C08', "`serde(skip)` on the delta's derived indexes", "same-block create-and-spend, pause between creation and spend, upgrade during the pause", 'heartbeat-trap'),
 'C09-c': ('C09', "tree flattening emits children in reverse order", "two forks tied on difficulty and length, an odd number of upgrades, then a query", 'after-upgrade / answers-changed-by-upgrade'),
 'C09-d': ('C09', "post_upgrade clears the fee percentile cache", "fees evaluated, their blocks stabilise (only coinbase blocks unstable), upgrade, query", 'fee-percentiles-changed-by-upgrade'),
 'C13-c': ('C13', "non-fetching heartbeat drops the stored partial response", "partial reply, heartbeat suspended on a follow-up, a second heartbeat (or syncing disabled) runs the processing step", 'stored-response-mismatch'),
 'C13-d': ('C13', "follow-up handler counts remaining_follow_ups down while the request builder treats it as the total", "a block split over 4 or more pages", 'heartbeat-trap / bad-follow-up-index'),
 'C20-c': ('C20', "remove_from_cache follows a single branch of the discarded tree", "a pop whose discarded part is not a simple chain (two discarded children, or a discarded fork that forks again)", 'block-body-leaked'),
 'C20-d': ('C20', "stale stable height passed to pop on the un-sliced path", "announced header whose block never arrives, anchor advancing to exactly that height without slicing", 'announced-header-leaked'),
 'C03-c': ('C03', "pop_ingested_anchor picks the child with the deepest subtree instead of the main-chain child", "heavier-but-shorter stable child vs a longer lighter sibling, ingestion paused, threshold raised during the pause", 'advance-not-due'),
 'C03-d': ('C03', "depth bound computed from the sum of cached tip depths instead of the block count", "testnet/regtest, anchor much heavier than its descendants, chain of hundreds of blocks below the bound, a small fork near the tip", 'advance-not-due'),
 'C06-c': ('C06', "zero-value address outputs not recorded in the in-progress block's delta", "zero-value addressable output, its block's ingestion paused after it, a page served between two slices", 'session-element-duplicated'),
 'C06-d': ('C06', "`take_while` instead of `filter` on the exact-address check of the stable index scan", "prefix address pair, the longer one owning a stable UTXO, first (offset-less) request for the shorter one", 'session-element-missing'),
 'C10-c': ('C10', "blocks validated against the announced-headers context", "headers of b2,b3 announced, then b3 delivered without b2", 'heartbeat-trap'),
 'C10-d': ('C10', "`serde(skip)` on the height index of announced headers", "header announced, upgrade, then its block delivered", 'heartbeat-trap'),
 'C15-c': ('C15', "upgrade fallback counts coinbases against the 10,000 window", ">= 10,000 transactions, upgrade while the boundary block is unstable, recomputation", 'fee-percentiles-wrong'),
 'C15-d': ('C15', "post_upgrade drops the persisted percentile cache", "percentiles computed, stabilisation without a tip change (or a kept previous answer), upgrade, query", 'fee-percentiles-wrong'),
 'C01-c': ('C01', "request address kept in the caller's spelling instead of the canonical one", "a segwit address spelled in upper-case bech32 (valid per BIP-173)", 'utxo-missing'),
 'C01-d': ('C01', "OP_RETURN skip moved before enumerate() in insert_outputs (vout shifted)", "transaction [payment, OP_RETURN, payment], its block stabilises, then a query", 'utxo-extra'),
 'C02-c': ('C02', "tree flattening emits children in reverse order", "two branches tied on difficulty and length, an upgrade, then any query", 'blockchain-info-wrong-tip'),
 'C02-d': ('C02', "best (difficulty, length) tracked component-wise instead of lexicographically", "nested fork with an exact difficulty tie, or three siblings with a lighter-but-longer one", 'blockchain-info-wrong-tip'),
 'C04-c': ('C04', "cut computed along the best chain (`take(len + 1 - c)`)", "heavier-but-shorter best branch vs a longer lighter branch, c in a narrow window", 'wrong-cut-block'),
 'C04-d': ('C04', "stability count cast to u32 before the comparison", "a best-chain block strictly shallower than its competitor, any c >= 1", 'wrong-cut-block'),
 'C05-c': ('C05', "Ord for Utxo ignores the vout (copy/paste)", "one transaction paying an address two outputs of identical value, block still unstable", 'balance-differs-from-utxo-sum'),
 'C05-d': ('C05', "`serde(skip)` on the in-progress block's stats and delta", "ingestion paused, upgrade, query on an address that spent a stable UTXO in the ingested part", 'balance-differs-from-utxo-sum'),
 'C07-c': ('C07', "length-only main-chain twin loses the 'more blocks' tie-break", "fork with equal work, different block counts, shorter branch first", 'header-range-wrong-length'),
 'C07-d': ('C07', "main-chain height taken from the deepest cached tip depth", "heavier branch with fewer blocks than a lighter one; range up to the longer fork's height traps", 'unexpected-trap'),
 'C11-c': ('C11', "20-minute rule checked before the period-boundary test", "testnet4/regtest, candidate exactly at a multiple of 2016, more than 20 minutes after its parent", 'header-admission:*'),
 'C11-d': ('C11', "`abs_diff` instead of `saturating_sub` for the period timespan", "a full period whose last header is more than 3.5 days earlier than its first, then the retarget header", 'header-admission:*'),
 'C14-c': ('C14', "announced headers taken out of the stored partial response before it is complete", "Partial with non-empty next and >= 2 follow-ups", 'answered-while-gated'),
 'C14-d': ('C14', "`serde(skip)` on the announced headers", "headers more than 2 above the tip, upgrade, query before a new response", 'answered-while-gated'),
 'C16-c': ('C16', "early return in get_block_headers when the range is entirely stable leaves ins_total at 0", "stable height >= 1, non-zero rate and instruction count, range entirely below the stable height", 'wrong-amount-charged'),
 'C16-d': ('C16', "explicit all-zero fee table at init treated as 'no fees given'", "init on mainnet/testnet with fees: Some(all zero), then a charged call", 'wrong-amount-charged'),
 'C17-c': ('C17', "failed get_blockchain_info no longer erases the previous canister height", "a successful round, then a round where the call fails while a quorum of explorers moved on", 'status-mismatch'),
 'C17-d': ('C17', "canister contacted only when the target differs from the previous target", "a quorum round whose set_config fails (or the flag is flipped externally), then rounds with the same decision", 'set-config-mismatch'),
 'C19-c': ('C19', "set_config overwrites api_access with the other flag when api_access is omitted", "the two flags differ, a set_config/upgrade argument omitting api_access, then send_transaction", 'not-forwarded-unchanged'),
 'C19-d': ('C19', "request counter bumped after the internal call instead of before", "well-formed payload, block source rejects the internal call", 'forwarded-but-not-counted'),
 'C20-b': ('C20', "discarded fork cleaned only one level deep", "a discarded fork of at least two blocks", 'tx-out-leaked'),
}
confirm = {}
for f in ['/var/tmp/confirm_batch1.log', '/var/tmp/confirm_batch2.log', '/var/tmp/confirm_batch3.log', '/var/tmp/confirm_batch4.log', '/var/tmp/confirm_batch5.log', '/var/tmp/confirm_batch6.log', '/var/tmp/confirm_batch7.log', '/var/tmp/confirm_batch8.log']:
    if os.path.exists(f):
        for line in open(f):
            m = re.match(r'RESULT (\S+) (\S+) demo-filter=(\S+) with-patch:failed=(\d+),ok=(\d+) without-patch:failed=(\d+),ok=(\d+)', line)
            if m:
                confirm[m.group(1)] = dict(suite=m.group(2), demo=m.group(3), with_failed=int(m.group(4)), with_ok=int(m.group(5)), without_failed=int(m.group(6)), without_ok=int(m.group(7)))
detect = {}
if os.path.exists('/var/tmp/mutant_results.json'):
    detect = json.load(open('/var/tmp/mutant_results.json'))
os.makedirs(DST, exist_ok=True)
kept = []
for mid, (prop, what, needs, kind) in sorted(INFO.items()):
    src = f'{SRC}/{mid}'
    if not os.path.isdir(src):
        continue
    c = confirm.get(mid)
    ok = bool(c) and c['suite'] == 'suite-ok' and c['with_failed'] > 0 and c['without_failed'] == 0 and c['without_ok'] > 0
    if not ok:
        print('NOT CONFIRMED', mid, c)
        continue
    d = f'{DST}/{mid}'
    os.makedirs(d, exist_ok=True)
    for fn in ['patch.diff', 'demo.diff', 'README.md']:
        if os.path.exists(f'{src}/{fn}'):
            shutil.copy(f'{src}/{fn}', f'{d}/{fn}')
    for fn in ['patch.orig.diff', 'demo.orig.diff']:
        if os.path.exists(f'{src}/{fn}'):
            shutil.copy(f'{src}/{fn}', f'{d}/{fn}')
    meta = {
        'id': mid,
        'property': prop,
        'change': what,
        'needs_to_manifest': needs,
        'origin': 'written by a fresh sub-agent that was given only the text of the property and a scratch worktree of /repo (nothing from /verif)',
        'confirmed_by_me': {
            'how': 'scripts/confirm_seeded.sh in the scratch worktree /tmp/wt/confirm of /repo HEAD: cargo test of the touched crate(s) with the patch (every stable_pass test of BASELINE.json still ok), then the demonstration test with the patch (fails) and without it (passes)',
            'suite_with_patch': c['suite'],
            'demo_test_filter': c['demo'],
            'demo_with_patch': f"{c['with_failed']} failed line(s)",
            'demo_without_patch': f"{c['without_ok']} ok line(s), {c['without_failed']} failed",
        },
        'detected_by': {'check': f'./check {prop} quick', 'violation_kind': kind, 'how_to_rerun': f'scripts/try_mutant.sh /verif/seeded/{mid} {prop} quick'},
        'note': ('patch.diff rebased onto the tree with the fix: commits (original kept as patch.orig.diff)' if os.path.exists(f'{src}/patch.orig.diff') else '') + (' demo adapted to the fixed tree (original kept as demo.orig.diff)' if os.path.exists(f'{src}/demo.orig.diff') else ''),
    }
    json.dump(meta, open(f'{d}/meta.json', 'w'), indent=1)
    kept.append(mid)
# reverts of the fix: commits (my own, not independent): each must be reported again
REV = {
 'revert-S1': ('C01', 'reverse of the fix for the prefix-colliding address scan'),
 'revert-S2': ('C01', 'reverse of the fix for the height of a transaction confirmed on two forks'),
 'revert-S3': ('C02', 'reverse of the fix for the unfiltered walk stopping at a negative stability count'),
 'revert-S4': ('C05', 'reverse of the fix making get_balance use the stability cut'),
 'revert-S5': ('C07', 'reverse of the fix for the duplicated anchor header during paused ingestion'),
 'revert-S8': ('C13', 'reverse of the fix for Partial{remaining_follow_ups: 0}'),
 'revert-S9': ('C19', 'reverse of the fix rejecting trailing bytes in send_transaction'),
 'revert-S10': ('C06', 'reverse of the fix ordering unstable outputs like the stable index'),
 'revert-KF3': ('C03', 'reverse of the fix popping the ingested anchor after a threshold raise'),
}
for rid, (prop, what) in REV.items():
    src = f'{SRC}/reverts/{rid}'
    if not os.path.isdir(src):
        continue
    d = f'{DST}/{rid}'
    os.makedirs(d, exist_ok=True)
    shutil.copy(f'{src}/patch.diff', f'{d}/patch.diff')
    json.dump({
        'id': rid, 'property': prop, 'change': what,
        'origin': 'git diff <fix commit> <fix commit>~1 in /repo (not independent of the machinery: it is the defect the simulator found)',
        'needs_to_manifest': 'see the fix commit message in /repo and DESIGN.md 13.3',
        'confirmed_by_me': {'how': 'the pinned suite passed on the tree before the fix (it is the original code); the demonstration is the minimised replay the simulator produced', 'what_i_ran': f'scripts/try_mutant.sh /verif/seeded/{rid} {prop} quick  -> VIOLATION property={prop}'},
        'detected_by': {'check': f'./check {prop} quick'},
    }, open(f'{d}/meta.json', 'w'), indent=1)
    kept.append(rid)
print('kept', len(kept), kept)
