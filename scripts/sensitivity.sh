#!/bin/bash
# Runs every seeded change under /verif/seeded against its property's quick check and writes
# /verif/seeded/RESULTS.md. /repo must be clean; it is restored after every change.
out=/verif/seeded/RESULTS.md
echo "# Sensitivity run: $(date -u +%Y-%m-%dT%H:%MZ), /repo $(git -C /repo rev-parse --short HEAD), /verif $(git -C /verif rev-parse --short HEAD)" > $out
echo >> $out
echo "| seeded change | property | result of \`./check <property> quick\` with the change applied | violation kind | runs until stop |" >> $out
echo "|---|---|---|---|---|" >> $out
for d in /verif/seeded/*/; do
  id=$(basename $d)
  [ -f $d/patch.diff ] || continue
  prop=$(python3 -c "import json;print(json.load(open('$d/meta.json'))['property'])")
  log=$(/verif/scripts/try_mutant.sh $d $prop quick 2>&1)
  if echo "$log" | grep -q "^VIOLATION property=$prop"; then res="**caught**"; else res="MISSED"; fi
  kind=$(echo "$log" | grep -o "violation kind=[^ ]*" | head -1 | sed 's/violation kind=//')
  runs=$(echo "$log" | grep -o "quick: [0-9]* runs" | head -1 | sed 's/quick: //')
  echo "| $id | $prop | $res | $kind | $runs |" >> $out
  echo "$id $prop $res $kind $runs"
done
