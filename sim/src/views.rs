//! Snapshot oracles: what every read endpoint must answer at a check point, computed from the
//! reference model (C01, C02, C04, C05, C07, C14) and compared with the real canister.

use crate::canister::{self, Trap};
use crate::model::{Hash32, OutP};
use crate::sim::*;
use crate::trace::*;
use ic_btc_interface::*;
use serde_bytes::ByteBuf;
use std::collections::BTreeMap;

/// (txid, vout, value, height)
pub type U = (Hash32, u32, u64, u32);

fn txid_bytes(t: &Txid) -> Hash32 {
    let mut a = [0u8; 32];
    a.copy_from_slice(t.as_ref());
    a
}

pub fn to_u(u: &Utxo) -> U {
    (txid_bytes(&u.outpoint.txid), u.outpoint.vout, u.value, u.height)
}

impl World {
    /// Expected UTXOs of `addr` on the chain genesis..=`tip` (model), sorted (height desc, outpoint asc).
    pub fn expected_utxos(&self, tip: usize, addr: &str) -> Vec<U> {
        let ledger = self.block(tip).ledger.as_ref().expect("tip is transaction-valid");
        let mut v: Vec<U> = ledger
            .iter()
            .filter(|(_, c)| self.net.wallet.by_script.get(&**c.script).map(|a| a == addr).unwrap_or(false))
            .map(|(op, c): (&OutP, _)| (op.txid, op.vout, c.value, c.height))
            .collect();
        v.sort_by(|a, b| b.3.cmp(&a.3).then(a.0.cmp(&b.0)).then(a.1.cmp(&b.1)));
        v
    }

    /// Follows all pages of a get_utxos answer with page size `limit` (0 = the real endpoint).
    pub fn all_pages(
        &mut self,
        addr: &str,
        first_filter: Option<UtxosFilterInRequest>,
        limit: usize,
    ) -> Result<Result<(Vec<GetUtxosResponse>, Vec<U>), GetUtxosError>, Trap> {
        let mut pages = vec![];
        let mut all = vec![];
        let mut filter = first_filter;
        loop {
            let r = if limit == 0 {
                canister::get_utxos_query(addr, self.network, filter)?
            } else {
                canister::get_utxos_limit(addr, self.network, filter, limit)?
            };
            let resp = match r {
                Ok(r) => r,
                Err(e) => return Ok(Err(e)),
            };
            all.extend(resp.utxos.iter().map(to_u));
            let next = resp.next_page.clone();
            pages.push(resp);
            match next {
                None => break,
                Some(p) => {
                    filter = Some(UtxosFilterInRequest::Page(p));
                    if pages.len() > 5000 {
                        break;
                    }
                }
            }
        }
        Ok(Ok((pages, all)))
    }

    fn hash_of(resp_hash: &[u8]) -> Hash32 {
        let mut a = [0u8; 32];
        if resp_hash.len() == 32 {
            a.copy_from_slice(resp_hash);
        }
        a
    }

    /// Compares a complete paged answer with the model's ledger at the tip it names.
    fn log_answer(&mut self, all: &[U]) {
        let mut f = crate::rng::Fnv::default();
        for u in all {
            f.write(&u.0);
            f.write_u64(u.1 as u64 ^ (u.2 << 1) ^ ((u.3 as u64) << 40));
        }
        self.log.write_u64(f.0);
    }

    pub fn compare_utxo_answer(
        &mut self,
        prop: &str,
        addr: &str,
        pages: &[GetUtxosResponse],
        all: &[U],
        limit: usize,
        what: &str,
    ) -> Check {
        self.stats.oracle_comparisons += 1;
        self.log_answer(all);
        let first = &pages[0];
        let tip_hash = Self::hash_of(&first.tip_block_hash);
        let Some(tip) = self.id_of(&tip_hash) else {
            return Err(violation(prop, "unknown-tip-named", format!("{what}: response names a tip that no block has")));
        };
        if self.block(tip).height != first.tip_height {
            return Err(violation(
                prop,
                "tip-height-wrong",
                format!("{what}: tip #{tip} has height {} but the response says {}", self.block(tip).height, first.tip_height),
            ));
        }
        let eff_limit = if limit == 0 { 1000 } else { limit };
        for (i, p) in pages.iter().enumerate() {
            if p.tip_block_hash != first.tip_block_hash || p.tip_height != first.tip_height {
                return Err(violation("C06", "page-names-other-tip", format!("{what}: page {i} names a different tip than page 0")));
            }
            if p.utxos.len() > eff_limit {
                return Err(violation("C06", "page-too-long", format!("{what}: page {i} holds {} elements, limit {eff_limit}", p.utxos.len())));
            }
        }
        let expected = self.expected_utxos(tip, addr);
        // order: descending height
        for w in all.windows(2) {
            if w[0].3 < w[1].3 {
                return Err(violation(prop, "not-descending-height", format!("{what}: heights {} then {}", w[0].3, w[1].3)));
            }
        }
        let mut got: Vec<U> = all.to_vec();
        got.sort_by(|a, b| b.3.cmp(&a.3).then(a.0.cmp(&b.0)).then(a.1.cmp(&b.1)));
        if got != expected {
            let missing: Vec<&U> = expected.iter().filter(|e| !got.contains(e)).collect();
            let extra: Vec<&U> = got.iter().filter(|e| !expected.contains(e)).collect();
            let dup = got.windows(2).any(|w| w[0] == w[1]);
            return Err(violation(
                prop,
                if dup { "utxo-duplicated" } else if !extra.is_empty() && missing.is_empty() { "utxo-extra" } else if extra.is_empty() { "utxo-missing" } else { "utxo-wrong" },
                format!(
                    "{what}: address {addr} at tip #{tip} (height {}): {} returned, {} expected; missing {}, extra {} (first missing {:?}, first extra {:?})",
                    first.tip_height,
                    got.len(),
                    expected.len(),
                    missing.len(),
                    extra.len(),
                    missing.first().map(|u| (hex::encode(&u.0[..4]), u.1, u.2, u.3)),
                    extra.first().map(|u| (hex::encode(&u.0[..4]), u.1, u.2, u.3)),
                ),
            ));
        }
        Ok(())
    }

    /// The block `B` of C04 for `c` on the model tree, or None if `c` exceeds the best chain.
    pub fn expected_cut(&self, c: u32) -> Option<usize> {
        let best = self.best_chain();
        if c as usize > best.len() {
            return None;
        }
        let mut cut = best[0];
        for b in &best {
            let d = self.tree.depth(*b) as i64;
            let other = self
                .tree
                .same_height_others(*b)
                .iter()
                .map(|o| self.tree.depth(*o) as i64)
                .max()
                .unwrap_or(0);
            if d - other >= c as i64 && d >= c as i64 {
                cut = *b;
            } else {
                break;
            }
        }
        Some(cut)
    }

    fn expect_refusal<T>(&mut self, r: Result<T, Trap>, what: &str) -> Check {
        self.stats.oracle_comparisons += 1;
        match r {
            Err(_) => Ok(()),
            Ok(_) => Err(violation("C14", "answered-while-gated", format!("{what} answered although the gate is closed"))),
        }
    }

    fn trap_violation(&self, prop: &str, what: &str, t: Trap) -> Violation {
        let prop = if self.is_active("C14") { "C14" } else { prop };
        violation(prop, "unexpected-trap", format!("{what} trapped: {}", t.0))
    }

    /// All snapshot oracles that are active for this run.
    pub fn check_views(&mut self, rotate: usize) -> Check {
        let net = self.network;
        let addrs = self.net.wallet.addresses();
        // ---- C14: gate ----
        if !self.data_gate_open() {
            if self.is_active("C14") {
                let a = addrs[rotate % addrs.len()].clone();
                self.stats.probe(if self.api_access { "sync_gate_closed" } else { "api_disabled" });
                let r = canister::get_utxos_query(&a, net, None);
                self.expect_refusal(r, "get_utxos_query")?;
                let r = canister::get_utxos_update(&a, net, None);
                self.expect_refusal(r, "get_utxos")?;
                let r = canister::get_balance_query(&a, net, None);
                self.expect_refusal(r, "get_balance_query")?;
                let r = canister::get_balance_update(&a, net, None);
                self.expect_refusal(r, "get_balance")?;
                let r = canister::get_block_headers(0, None, net);
                self.expect_refusal(r, "get_block_headers")?;
                let r = canister::get_fee_percentiles(net);
                self.expect_refusal(r, "get_current_fee_percentiles")?;
                // these answer regardless
                if let Err(t) = canister::get_config() {
                    return Err(violation("C14", "get_config-refused", t.0));
                }
                if let Err(t) = canister::get_blockchain_info() {
                    return Err(violation("C14", "get_blockchain_info-refused", t.0));
                }
            }
            return Ok(());
        }

        let best = self.best_chain();
        let tip = *best.last().unwrap();
        let tip_height = self.block(tip).height;
        let tip_hash = self.block(tip).hash;

        // ---- C02 ----
        if self.is_active("C02") {
            self.stats.oracle_comparisons += 1;
            let info = canister::get_blockchain_info().map_err(|t| self.trap_violation("C02", "get_blockchain_info", t))?;
            let tb = self.block(tip);
            if info.height != tip_height
                || info.block_hash != tip_hash.to_vec()
                || info.timestamp != tb.block.header.time
                || info.difficulty != tb.difficulty
            {
                let named = self.id_of(&Self::hash_of(&info.block_hash));
                return Err(violation(
                    "C02",
                    "blockchain-info-wrong-tip",
                    format!(
                        "get_blockchain_info names block {:?} at height {} (difficulty {}), model best tip is #{tip} at height {tip_height} (difficulty {}); best chain {:?}",
                        named, info.height, info.difficulty, tb.difficulty, best
                    ),
                ));
            }
            let a = addrs[rotate % addrs.len()].clone();
            match canister::get_utxos_query(&a, net, None).map_err(|t| self.trap_violation("C02", "get_utxos_query", t))? {
                Ok(r) => {
                    if r.tip_block_hash != tip_hash.to_vec() || r.tip_height != tip_height {
                        let named = self.id_of(&Self::hash_of(&r.tip_block_hash));
                        return Err(violation(
                            "C02",
                            "get-utxos-other-tip",
                            format!("unfiltered get_utxos names tip {:?} at height {}, best tip is #{tip} at height {tip_height}", named, r.tip_height),
                        ));
                    }
                }
                Err(e) => return Err(violation("C02", "get-utxos-error", format!("unfiltered get_utxos failed: {e:?}"))),
            }
            let start = tip_height.saturating_sub(2);
            match canister::get_block_headers(start, None, net).map_err(|t| self.trap_violation("C02", "get_block_headers", t))? {
                Ok(r) => {
                    let last = r.block_headers.last().cloned().unwrap_or_default();
                    if r.tip_height != tip_height || last != self.block(tip).header_bytes() {
                        return Err(violation(
                            "C02",
                            "headers-other-tip",
                            format!("get_block_headers({start}, none) ends at height {} ; best tip is #{tip} at {tip_height}", r.tip_height),
                        ));
                    }
                }
                Err(e) => return Err(violation("C02", "headers-error", format!("get_block_headers failed: {e:?}"))),
            }
            // balance w.r.t. the same tip
            let expected: u64 = self.expected_utxos(tip, &a).iter().map(|u| u.2).sum();
            match canister::get_balance_query(&a, net, None).map_err(|t| self.trap_violation("C02", "get_balance_query", t))? {
                Ok(b) => {
                    if b != expected {
                        return Err(violation(
                            "C02",
                            "balance-other-tip",
                            format!("get_balance({a}) = {b}, ledger at best tip #{tip} says {expected}"),
                        ));
                    }
                }
                Err(e) => return Err(violation("C02", "balance-error", format!("{e:?}"))),
            }
        }

        // ---- C01 ----
        if self.is_active("C01") {
            let limit = self.cfg.page_limit;
            for a in &addrs {
                let r = self.all_pages(a, None, limit).map_err(|t| self.trap_violation("C01", "get_utxos_query", t))?;
                match r {
                    Ok((pages, all)) => {
                        if pages.len() > 1 {
                            self.stats.probe("multi_page_answer");
                        }
                        self.compare_utxo_answer("C01", a, &pages, &all, limit, "unfiltered get_utxos")?
                    }
                    Err(e) => return Err(violation("C01", "get-utxos-error", format!("get_utxos({a}) failed: {e:?}"))),
                }
            }
            // the real endpoint (limit 1000) on one address
            let a = addrs[rotate % addrs.len()].clone();
            if let Ok((pages, all)) = self.all_pages(&a, None, 0).map_err(|t| self.trap_violation("C01", "get_utxos_query", t))? {
                if pages.len() > 1 {
                    self.stats.probe("real_1000_page_crossed");
                }
                self.compare_utxo_answer("C01", &a, &pages, &all, 0, "unfiltered get_utxos (limit 1000)")?;
            }
            // the same address in its other valid spelling (BIP-173 allows all-upper-case bech32)
            let bech: Vec<String> = addrs.iter().filter(|x| x.starts_with("bc1") || x.starts_with("tb1") || x.starts_with("bcrt1")).cloned().collect();
            if !bech.is_empty() {
                let a = bech[rotate % bech.len()].clone();
                let upper = a.to_uppercase();
                match self.all_pages(&upper, None, 0).map_err(|t| self.trap_violation("C01", "get_utxos_query", t))? {
                    Ok((pages, all)) => {
                        self.stats.probe("uppercase_bech32_queried");
                        self.compare_utxo_answer("C01", &a, &pages, &all, 0, "unfiltered get_utxos (upper-case bech32 spelling)")?
                    }
                    Err(e) => return Err(violation("C01", "valid-spelling-rejected", format!("get_utxos({upper}) failed: {e:?}"))),
                }
            }
            for (short, long) in self.net.wallet.prefix_pairs.clone() {
                let s = self.net.wallet.entries[short].address.clone().unwrap();
                let l = self.net.wallet.entries[long].address.clone().unwrap();
                if !self.expected_utxos(tip, &l).is_empty() {
                    self.stats.probe("prefix_pair_long_owns_utxos");
                }
                let _ = s;
            }
        }

        // ---- C04 ----
        if self.is_active("C04") {
            let limit = if self.cfg.page_limit < 7 { 0 } else { self.cfg.page_limit };
            let len = best.len() as u32;
            let sel: Vec<String> = (0..2).map(|k| addrs[(rotate + k * 3) % addrs.len()].clone()).collect();
            for c in 0..=len + 2 {
                let expected_cut = self.expected_cut(c);
                for a in &sel {
                    self.stats.oracle_comparisons += 1;
                    let r = self
                        .all_pages(a, Some(UtxosFilterInRequest::MinConfirmations(c)), limit)
                        .map_err(|t| self.trap_violation("C04", "get_utxos_query(min_confirmations)", t))?;
                    match (r, expected_cut) {
                        (Err(GetUtxosError::MinConfirmationsTooLarge { given, max }), None) => {
                            if given != c || max != len {
                                return Err(violation("C04", "too-large-error-fields", format!("c={c}: error says given {given} max {max}, best chain has {len} blocks")));
                            }
                        }
                        (Err(e), None) => return Err(violation("C04", "wrong-error", format!("c={c} > {len}: expected MinConfirmationsTooLarge, got {e:?}"))),
                        (Ok(_), None) => return Err(violation("C04", "too-large-c-accepted", format!("c={c} exceeds the best chain length {len} but was answered"))),
                        (Err(e), Some(_)) => return Err(violation("C04", "unexpected-error", format!("c={c}: {e:?}"))),
                        (Ok((pages, all)), Some(cut)) => {
                            let named = Self::hash_of(&pages[0].tip_block_hash);
                            if c >= 1 && named != self.block(cut).hash {
                                return Err(violation(
                                    "C04",
                                    "wrong-cut-block",
                                    format!(
                                        "min_confirmations={c}: response names tip {:?} (height {}), expected block #{cut} (height {}); best chain {:?}",
                                        self.id_of(&named),
                                        pages[0].tip_height,
                                        self.block(cut).height,
                                        best
                                    ),
                                ));
                            }
                            if c >= 1 {
                                self.compare_utxo_answer("C04", a, &pages, &all, limit, &format!("get_utxos(min_confirmations={c})"))?;
                                if self.tree.nodes.len() == best.len() {
                                    // fork-free: tip at H - c + 1
                                    let h = tip_height + 1 - c;
                                    if pages[0].tip_height != h {
                                        return Err(violation("C04", "fork-free-height", format!("fork-free chain of height {tip_height}, c={c}: tip at {} instead of {h}", pages[0].tip_height)));
                                    }
                                } else {
                                    self.stats.probe("c04_with_forks");
                                }
                            }
                        }
                    }
                }
            }
        }

        // ---- C05 ----
        if self.is_active("C05") {
            let limit = if self.cfg.page_limit < 7 { 0 } else { self.cfg.page_limit };
            let len = best.len() as u32;
            let mut all_addrs: Vec<String> = addrs.clone();
            all_addrs.extend(self.net.wallet.bad_addresses.iter().cloned());
            let cs: Vec<Option<u32>> = std::iter::once(None).chain((0..=len + 2).map(Some)).collect();
            for (ai, a) in all_addrs.iter().enumerate() {
                for c in &cs {
                    // all c for a rotating subset, {none, 0, 1, len, len+1} for the rest
                    let full = (ai + rotate) % 4 == 0;
                    if !full && !matches!(c, None | Some(0) | Some(1)) && *c != Some(len) && *c != Some(len + 1) {
                        continue;
                    }
                    self.stats.oracle_comparisons += 1;
                    let filter = c.map(UtxosFilterInRequest::MinConfirmations);
                    let u = self.all_pages(a, filter, limit).map_err(|t| self.trap_violation("C05", "get_utxos_query", t))?;
                    let b = canister::get_balance_query(a, net, *c).map_err(|t| self.trap_violation("C05", "get_balance_query", t))?;
                    match (&u, &b) {
                        (Ok((_, all)), Ok(bal)) => {
                            let sum: u64 = all.iter().map(|x| x.2).sum();
                            if sum != *bal {
                                return Err(violation(
                                    "C05",
                                    "balance-differs-from-utxo-sum",
                                    format!("address {a}, min_confirmations {:?}: get_balance = {bal}, sum of get_utxos = {sum} ({} utxos)", c, all.len()),
                                ));
                            }
                        }
                        (Err(GetUtxosError::MalformedAddress), Err(GetBalanceError::MalformedAddress)) => {}
                        (Err(GetUtxosError::AddressForWrongNetwork { expected: e1 }), Err(GetBalanceError::AddressForWrongNetwork { expected: e2 })) if e1 == e2 => {}
                        (Err(GetUtxosError::MinConfirmationsTooLarge { given: g1, max: m1 }), Err(GetBalanceError::MinConfirmationsTooLarge { given: g2, max: m2 })) if g1 == g2 && m1 == m2 => {}
                        (u, b) => {
                            return Err(violation(
                                "C05",
                                "error-class-differs",
                                format!("address {a:?}, min_confirmations {:?}: get_utxos -> {:?}, get_balance -> {:?}", c, u.as_ref().map(|x| x.1.len()), b),
                            ))
                        }
                    }
                    // update variants give the same values
                    if full && (c.is_none() || *c == Some(1)) {
                        let b2 = canister::get_balance_update(a, net, *c).map_err(|t| self.trap_violation("C05", "get_balance", t))?;
                        if b2 != b {
                            return Err(violation("C05", "query-update-differ", format!("get_balance {:?} vs get_balance_query {:?}", b2, b)));
                        }
                        let filter = c.map(UtxosFilterInRequest::MinConfirmations);
                        let q = canister::get_utxos_query(a, net, filter).map_err(|t| self.trap_violation("C05", "get_utxos_query", t))?;
                        let filter = c.map(UtxosFilterInRequest::MinConfirmations);
                        let up = canister::get_utxos_update(a, net, filter).map_err(|t| self.trap_violation("C05", "get_utxos", t))?;
                        if q != up {
                            return Err(violation("C05", "query-update-differ", format!("get_utxos and get_utxos_query differ for {a}")));
                        }
                    }
                }
            }
        }

        if self.is_active("C05") {
            let bech: Vec<String> = addrs.iter().filter(|x| x.starts_with("bc1") || x.starts_with("tb1") || x.starts_with("bcrt1")).cloned().collect();
            if !bech.is_empty() {
                let a = bech[rotate % bech.len()].clone();
                let upper = a.to_uppercase();
                let b1 = canister::get_balance_query(&a, net, None).map_err(|t| self.trap_violation("C05", "get_balance_query", t))?;
                let b2 = canister::get_balance_query(&upper, net, None).map_err(|t| self.trap_violation("C05", "get_balance_query", t))?;
                let u2 = self.all_pages(&upper, None, 0).map_err(|t| self.trap_violation("C05", "get_utxos_query", t))?;
                let s2: Option<u64> = u2.as_ref().ok().map(|(_, all)| all.iter().map(|x| x.2).sum());
                if b1 != b2 || b2.as_ref().ok().copied() != s2 {
                    return Err(violation(
                        "C05",
                        "balance-differs-from-utxo-sum",
                        format!("address {a} in upper-case spelling: get_balance {:?} (lower-case {:?}), sum of get_utxos {:?}", b2, b1, s2),
                    ));
                }
            }
        }

        // ---- C07 ----
        if self.is_active("C07") {
            self.check_headers(rotate)?;
        }
        Ok(())
    }

    pub fn full_chain(&self) -> Vec<usize> {
        let mut v = self.stable_chain.clone();
        v.extend(self.best_chain());
        v
    }

    fn check_headers(&mut self, rotate: usize) -> Check {
        let net = self.network;
        let chain = self.full_chain();
        let tip = chain.len() as u32 - 1;
        let anchor = self.anchor_height();
        let mut pairs: Vec<(u32, Option<u32>)> = vec![];
        if tip <= 12 {
            for s in 0..=tip + 2 {
                pairs.push((s, None));
                for e in 0..=tip + 2 {
                    pairs.push((s, Some(e)));
                }
            }
        } else {
            let mut pts: Vec<u32> = vec![0, 1, tip, tip + 1, tip + 2, tip.saturating_sub(1), tip.saturating_sub(2)];
            for d in 0..=2 {
                pts.push(anchor + d);
                pts.push(anchor.saturating_sub(d));
            }
            pts.push((rotate as u32 * 7) % (tip + 1));
            pts.sort();
            pts.dedup();
            for s in &pts {
                pairs.push((*s, None));
                for e in &pts {
                    pairs.push((*s, Some(*e)));
                }
                for e in [s + 98, s + 99, s + 100] {
                    pairs.push((*s, Some(e)));
                }
            }
        }
        for (s, e) in pairs {
            self.stats.oracle_comparisons += 1;
            let r = canister::get_block_headers(s, e, net).map_err(|t| self.trap_violation("C07", "get_block_headers", t))?;
            // expected
            let expected: Result<(u32, u32), &'static str> = if s > tip {
                Err("StartHeightDoesNotExist")
            } else if let Some(e) = e {
                if e < s {
                    Err("StartHeightLargerThanEndHeight")
                } else if e > tip {
                    Err("EndHeightDoesNotExist")
                } else {
                    Ok((s, e.min(s + 99)))
                }
            } else {
                Ok((s, tip.min(s + 99)))
            };
            match (r, expected) {
                (Ok(resp), Ok((lo, hi))) => {
                    let want: Vec<Vec<u8>> = (lo..=hi).map(|h| self.block(chain[h as usize]).header_bytes()).collect();
                    if resp.block_headers != want || resp.tip_height != hi {
                        let same_len = resp.block_headers.len() == want.len();
                        if lo < anchor && hi >= anchor {
                            self.stats.probe("header_range_straddles_boundary");
                        }
                        return Err(violation(
                            "C07",
                            if same_len { "header-range-wrong-headers" } else { "header-range-wrong-length" },
                            format!(
                                "get_block_headers({s}, {:?}) with anchor at {anchor}, tip {tip}: returned {} headers (tip_height {}), expected {} headers for heights {lo}..={hi}",
                                e,
                                resp.block_headers.len(),
                                resp.tip_height,
                                want.len()
                            ),
                        ));
                    }
                    for h in &resp.block_headers {
                        if h.len() != 80 {
                            return Err(violation("C07", "header-not-80-bytes", format!("a header of {} bytes", h.len())));
                        }
                    }
                    if lo < anchor && hi >= anchor {
                        self.stats.probe("header_range_straddles_boundary");
                    }
                }
                (Err(err), Err(cls)) => {
                    let got = match err {
                        GetBlockHeadersError::StartHeightDoesNotExist { .. } => "StartHeightDoesNotExist",
                        GetBlockHeadersError::EndHeightDoesNotExist { .. } => "EndHeightDoesNotExist",
                        GetBlockHeadersError::StartHeightLargerThanEndHeight { .. } => "StartHeightLargerThanEndHeight",
                    };
                    // s > tip takes precedence over the other two in the documented order
                    if got != cls && !(s > tip && got == "StartHeightDoesNotExist") {
                        return Err(violation("C07", "wrong-error-class", format!("get_block_headers({s}, {:?}): {got}, expected {cls}", e)));
                    }
                }
                (Ok(resp), Err(cls)) => {
                    return Err(violation("C07", "range-error-not-reported", format!("get_block_headers({s}, {:?}) returned {} headers, expected error {cls}", e, resp.block_headers.len())))
                }
                (Err(err), Ok(_)) => return Err(violation("C07", "unexpected-range-error", format!("get_block_headers({s}, {:?}) failed: {err:?}", e))),
            }
        }
        Ok(())
    }

    pub fn page_bytes_of(p: &ByteBuf) -> Vec<u8> {
        p.to_vec()
    }
}

/// Everything observable through the read API as labelled entries (used for "no effect",
/// before/after and twin comparisons; a mismatch is reported by label).
#[derive(Clone, Debug, PartialEq, Eq)]
pub struct Snapshot {
    pub entries: Vec<(String, String)>,
}

impl Snapshot {
    /// Labels whose values differ (ignoring `ignore`).
    pub fn diff(&self, other: &Snapshot, ignore: &[&str]) -> Vec<String> {
        let a: BTreeMap<&String, &String> = self.entries.iter().map(|(k, v)| (k, v)).collect();
        let b: BTreeMap<&String, &String> = other.entries.iter().map(|(k, v)| (k, v)).collect();
        let mut out = vec![];
        for (k, v) in &a {
            if ignore.contains(&k.as_str()) {
                continue;
            }
            match b.get(k) {
                Some(w) if w == v => {}
                Some(w) => out.push(format!("{k}: {v} -> {w}")),
                None => out.push(format!("{k}: {v} -> (absent)")),
            }
        }
        for (k, w) in &b {
            if !a.contains_key(k) && !ignore.contains(&k.as_str()) {
                out.push(format!("{k}: (absent) -> {w}"));
            }
        }
        out
    }

    pub fn digest(&self, include_utxos_length: bool) -> u64 {
        let mut f = crate::rng::Fnv::default();
        for (k, v) in &self.entries {
            if !include_utxos_length && k == "utxos_length" {
                continue;
            }
            f.write_str(k);
            f.write_str(v);
        }
        f.0
    }
}

pub fn snapshot(w: &mut World) -> Result<Snapshot, Trap> {
    let mut entries: Vec<(String, String)> = vec![];
    let net = w.network;
    let info = canister::get_blockchain_info()?;
    entries.push(("info.height".into(), info.height.to_string()));
    entries.push(("info.block_hash".into(), hex::encode(&info.block_hash)));
    entries.push(("info.timestamp".into(), info.timestamp.to_string()));
    entries.push(("info.difficulty".into(), info.difficulty.to_string()));
    entries.push(("utxos_length".into(), info.utxos_length.to_string()));
    let cfg = canister::get_config()?;
    entries.push(("config".into(), format!("{:?}", cfg)));
    if !w.data_gate_open() {
        return Ok(Snapshot { entries });
    }
    let addrs = w.net.wallet.addresses();
    let len = w.best_chain().len() as u32;
    let limit = if w.cfg.page_limit < 7 { 0 } else { w.cfg.page_limit };
    for a in &addrs {
        for c in std::iter::once(None).chain((1..=len + 1).map(Some)) {
            let filter = c.map(UtxosFilterInRequest::MinConfirmations);
            let v = match w.all_pages(a, filter, limit)? {
                Ok((pages, all)) => {
                    let mut f = crate::rng::Fnv::default();
                    for u in &all {
                        f.write(&u.0);
                        f.write_u64(u.1 as u64);
                        f.write_u64(u.2);
                        f.write_u64(u.3 as u64);
                    }
                    format!("tip {} h{} n{} sum{} #{:08x}", hex::encode(&pages[0].tip_block_hash[..4.min(pages[0].tip_block_hash.len())]), pages[0].tip_height, all.len(), all.iter().map(|u| u.2).sum::<u64>(), f.0 as u32)
                }
                Err(e) => format!("{e:?}"),
            };
            entries.push((format!("utxos({a},{c:?})"), v));
            let v = match canister::get_balance_query(a, net, c)? {
                Ok(b) => b.to_string(),
                Err(e) => format!("{e:?}"),
            };
            entries.push((format!("balance({a},{c:?})"), v));
        }
    }
    let tip = info.height;
    let mut s = 0;
    loop {
        let v = match canister::get_block_headers(s, None, net)? {
            Ok(r) => {
                let mut f = crate::rng::Fnv::default();
                for h in &r.block_headers {
                    f.write(h);
                }
                format!("tip {} n{} #{:08x}", r.tip_height, r.block_headers.len(), f.0 as u32)
            }
            Err(e) => format!("{e:?}"),
        };
        entries.push((format!("headers({s},None)"), v));
        s += 100;
        if s > tip {
            break;
        }
    }
    Ok(Snapshot { entries })
}

pub fn snapshot_digest(w: &mut World, include_utxos_length: bool) -> Result<u64, Trap> {
    Ok(snapshot(w)?.digest(include_utxos_length))
}

#[allow(dead_code)]
pub fn unused(_: &BTreeMap<u8, u8>, _: &ClientOp) {}
