//! The simulated world: the real canister (thread-local), the stub network/adapter, the
//! reference model, and the event loop that keeps them in lock step and checks oracles.

use crate::canister::{self, Budget, Polled, Task, Trap};
use crate::model::{self, Hash32, RefTree};
use crate::net::{BtcNet, Mutation, NetBlock, Wallet};
use crate::rng::{Fnv, Rng};
use crate::rules::{self, HeaderVerdict};
use crate::trace::*;
use bitcoin::block::Header;
use bitcoin::hashes::Hash;
use ic_btc_canister::state::ResponseToProcess;
use ic_btc_canister::types::{
    BlockHeaderBlob, GetSuccessorsCompleteResponse, GetSuccessorsPartialResponse,
    GetSuccessorsRequest, GetSuccessorsResponse,
};
use ic_btc_interface::{Fees, Flag, InitConfig, Network, SetConfigRequest};
use std::collections::{BTreeMap, BTreeSet};

pub fn parse_network(s: &str) -> Network {
    match s {
        "mainnet" => Network::Mainnet,
        "testnet" => Network::Testnet,
        _ => Network::Regtest,
    }
}

pub fn fees_of(spec: &FeeSpec) -> Fees {
    Fees {
        get_utxos_base: spec.get_utxos_base as u128,
        get_utxos_cycles_per_ten_instructions: spec.get_utxos_rate as u128,
        get_utxos_maximum: spec.get_utxos_maximum as u128,
        get_balance: spec.get_balance as u128,
        get_balance_maximum: spec.get_balance_maximum as u128,
        get_current_fee_percentiles: spec.fee_percentiles as u128,
        get_current_fee_percentiles_maximum: spec.fee_percentiles_maximum as u128,
        send_transaction_base: spec.send_base as u128,
        send_transaction_per_byte: spec.send_per_byte as u128,
        get_block_headers_base: spec.headers_base as u128,
        get_block_headers_cycles_per_ten_instructions: spec.headers_rate as u128,
        get_block_headers_maximum: spec.headers_maximum as u128,
    }
}

/// Published default fee tables (docs "API fees and pricing"); regtest charges nothing.
pub fn default_fees(net: Network) -> Fees {
    let (unit, max_big, small, small_max, send_base, per_byte): (u128, u128, u128, u128, u128, u128) = match net {
        Network::Mainnet => (50_000_000, 10_000_000_000, 10_000_000, 100_000_000, 5_000_000_000, 20_000_000),
        Network::Testnet => (20_000_000, 4_000_000_000, 4_000_000, 40_000_000, 2_000_000_000, 8_000_000),
        Network::Regtest => return Fees::default(),
    };
    let rate = if net == Network::Mainnet { 10 } else { 4 };
    Fees {
        get_utxos_base: unit,
        get_utxos_cycles_per_ten_instructions: rate,
        get_utxos_maximum: max_big,
        get_balance: small,
        get_balance_maximum: small_max,
        get_current_fee_percentiles: small,
        get_current_fee_percentiles_maximum: small_max,
        send_transaction_base: send_base,
        send_transaction_per_byte: per_byte,
        get_block_headers_base: unit,
        get_block_headers_cycles_per_ten_instructions: rate,
        get_block_headers_maximum: max_big,
    }
}

fn flag(b: bool) -> Flag {
    if b {
        Flag::Enabled
    } else {
        Flag::Disabled
    }
}

pub fn set_config_request(c: &ConfigSpec) -> SetConfigRequest {
    SetConfigRequest {
        stability_threshold: c.threshold.map(|t| t as u128),
        syncing: c.syncing.map(flag),
        fees: c.fees.as_ref().map(fees_of),
        api_access: c.api_access.map(flag),
        disable_api_if_not_fully_synced: c.sync_flag.map(flag),
        watchdog_canister: None,
        lazily_evaluate_fee_percentiles: c.lazy_fees.map(flag),
        burn_cycles: None,
    }
}

/// What the simulator can see of the canister's sync state through `pub` items.
#[derive(Clone, Debug, PartialEq, Eq)]
pub struct Observed {
    pub hashes: Vec<Hash32>,
    pub stable_height: u32,
    pub ingesting: Option<Hash32>,
    pub resp: RespKind,
    pub deser_errs: u64,
    pub insert_errs: u64,
    pub rejects: u64,
    pub is_fetching: bool,
}

#[derive(Clone, Debug, PartialEq, Eq)]
pub enum RespKind {
    None,
    Partial { bytes: Vec<u8>, pages_done: u8, remaining: u8 },
    Complete { blocks: Vec<Vec<u8>>, next: Vec<Vec<u8>> },
}

pub fn observe() -> Observed {
    ic_btc_canister::with_state(|s| {
        // The unstable set is read level by level (anchor first), deliberately *not* through
        // `state::get_block_hashes`, which is what the canister itself uses to build its
        // get_successors request: the request is then checked against an independent reading.
        let hashes: Vec<Hash32> = s
            .unstable_blocks
            .block_hashes_with_depths_by_heights()
            .iter()
            .flat_map(|level| level.iter())
            .map(|(h, _)| {
                let mut a = [0u8; 32];
                a.copy_from_slice(h.as_bytes());
                a
            })
            .collect();
        let ingesting = s.utxos.ingesting_block.as_ref().map(|b| {
            let mut a = [0u8; 32];
            a.copy_from_slice(b.block.block_hash().as_bytes());
            a
        });
        let resp = match &s.syncing_state.response_to_process {
            None => RespKind::None,
            Some(ResponseToProcess::Partial(p, k)) => RespKind::Partial {
                bytes: p.partial_block.clone(),
                pages_done: *k,
                remaining: p.remaining_follow_ups,
            },
            Some(ResponseToProcess::Complete(c)) => RespKind::Complete {
                blocks: c.blocks.clone(),
                next: c.next.iter().map(|h| h.as_slice().to_vec()).collect(),
            },
        };
        Observed {
            hashes,
            stable_height: s.stable_height(),
            ingesting,
            resp,
            deser_errs: s.syncing_state.num_block_deserialize_errors,
            insert_errs: s.syncing_state.num_insert_block_errors,
            rejects: s.syncing_state.num_get_successors_rejects,
            is_fetching: s.syncing_state.is_fetching_blocks,
        }
    })
}

/// A reply as the model sees it: raw bytes plus what they are meant to be.
#[derive(Clone, Debug, Default)]
pub struct ModelReply {
    pub blocks: Vec<Vec<u8>>,
    pub next: Vec<Vec<u8>>,
}

#[derive(Clone, Debug)]
pub enum ModelPending {
    None,
    Partial { bytes: Vec<u8>, next: Vec<Vec<u8>>, done: u8, total: u8 },
    Complete(ModelReply),
}

/// Adapter-side paging state for one oversized block.
#[derive(Clone, Debug)]
pub struct Paging {
    pub chunks: Vec<Vec<u8>>,
}

#[derive(Clone, Debug, Default)]
pub struct Stats {
    pub events_by_kind: BTreeMap<String, u64>,
    pub faults: BTreeMap<String, u64>,
    pub probes: BTreeMap<String, u64>,
    pub oracle_comparisons: u64,
    pub simulated_seconds: u64,
    pub abstract_states: BTreeSet<u64>,
    pub abstract_transitions: BTreeSet<u64>,
    /// wall-clock profile (never part of any digest or decision)
    pub wall_us: BTreeMap<String, u64>,
}

impl Stats {
    pub fn probe(&mut self, name: &str) {
        *self.probes.entry(name.to_string()).or_insert(0) += 1;
    }
    pub fn fault(&mut self, name: &str) {
        *self.faults.entry(name.to_string()).or_insert(0) += 1;
    }
}

pub struct Session {
    pub addr: usize,
    pub limit: usize,
    pub tip: Hash32,
    pub tip_height: u32,
    pub collected: Vec<(Hash32, u32, u64, u32)>,
    pub next_page: Option<Vec<u8>>,
    pub pages: u32,
    pub interleaved: u32,
    pub done: bool,
}

pub struct World {
    pub cfg: RunConfig,
    pub network: Network,
    pub net: BtcNet,
    pub now: u64,
    pub tasks: Vec<Task>,
    // ---- model ----
    pub tree: RefTree,
    /// ids of blocks below the anchor, by height
    pub stable_chain: Vec<usize>,
    pub threshold: u32,
    pub announced: BTreeMap<Hash32, (u32, Header)>,
    pub pending: ModelPending,
    pub paging: Option<Paging>,
    pub syncing: bool,
    pub api_access: bool,
    pub sync_flag: bool,
    pub lazy_fees: bool,
    pub fees: Fees,
    pub fees_explicit: bool,
    /// fetch grammar: next FollowUp index expected (None = Initial expected)
    pub expect_follow_up: Option<u8>,
    pub admitted_count: BTreeMap<usize, u32>,
    /// blocks offered in an honest reply that the model judged admissible, not yet admitted
    pub sessions: BTreeMap<usize, Session>,
    // fee oracle state
    pub fee_cache: Option<(usize, Vec<u64>)>,
    pub fee_candidates: Vec<(usize, Vec<u64>)>,
    /// set when the canister advanced its anchor to a child the rule does not allow and the model
    /// advanced to the child the rule names instead
    pub reference_took_other_step: bool,
    /// eager mode: (tip, percentiles) that must have been cached by the message in which `tip`
    /// became the best tip (None = unknown)
    pub eager_expected: Option<(usize, Vec<u64>)>,
    pub last_fee_answer: Option<Vec<u64>>,
    pub send_tx_count: u64,
    // ---- bookkeeping ----
    pub stats: Stats,
    pub log: Fnv,
    pub event_index: usize,
    pub synthetic_pow: bool,
    pub desynced: bool,
    pub ingest_rounds: u64,
    pub threshold_at_ingest_start: Option<u32>,
    pub ingest_snapshot: Option<u64>,
    pub active: BTreeSet<String>,
    pub heartbeat_traps: u64,
    pub last_abstract: u64,
}

pub type Check = Result<(), Violation>;

pub fn violation(property: &str, kind: &str, detail: String) -> Violation {
    Violation {
        property: property.to_string(),
        kind: kind.to_string(),
        detail,
        at_event: 0,
    }
}

impl World {
    pub fn new(cfg: &RunConfig, active: &[&str]) -> Result<World, Trap> {
        let network = parse_network(&cfg.network);
        let mut wrng = Rng::new(cfg.wallet_seed);
        let wallet = Wallet::generate(network, &mut wrng, cfg.wallet_size);
        let net = BtcNet::new(network, wallet);
        let synthetic_pow = network != Network::Regtest;
        ic_btc_validation::verif_hooks::set_synthetic_pow(synthetic_pow);
        ic_btc_types::verif_hooks::clear_difficulty_overrides();
        let mut net = net;
        if cfg.genesis_difficulty != 0 {
            // an anchor much heavier than its descendants: only the depth escape can stabilise it
            let g = net.blocks.get_mut(&0).unwrap();
            g.difficulty = cfg.genesis_difficulty as u128;
            g.difficulty_overridden = true;
            ic_btc_types::verif_hooks::set_difficulty_override(ic_btc_types::BlockHash::from(g.hash.to_vec()), g.difficulty);
        }
        canister::fresh_memory(cfg.bucket_pages);
        let fees_explicit = cfg.fees.is_some();
        let init = InitConfig {
            stability_threshold: Some(cfg.threshold as u128),
            network: Some(network),
            blocks_source: None,
            syncing: None,
            fees: cfg.fees.as_ref().map(fees_of),
            api_access: None,
            disable_api_if_not_fully_synced: Some(flag(cfg.sync_flag)),
            watchdog_canister: None,
            burn_cycles: None,
            lazily_evaluate_fee_percentiles: Some(flag(cfg.lazy_fees)),
        };
        let genesis_time = net.blocks[&0].block.header.time as u64;
        let now = genesis_time + 3600;
        canister::begin_message(Budget { pause_at: 0 }, now, 0);
        canister::init(init)?;
        // the model's fee table comes from the specification, not from the canister
        let fees = match &cfg.fees {
            Some(spec) => fees_of(spec),
            None => default_fees(network),
        };
        let g = &net.blocks[&0];
        let tree = RefTree::new(0, g.difficulty, 0);
        Ok(World {
            cfg: cfg.clone(),
            network,
            net,
            now,
            tasks: vec![],
            tree,
            stable_chain: vec![],
            threshold: cfg.threshold,
            announced: BTreeMap::new(),
            pending: ModelPending::None,
            paging: None,
            syncing: true,
            api_access: true,
            sync_flag: cfg.sync_flag,
            lazy_fees: cfg.lazy_fees,
            fees,
            fees_explicit,
            expect_follow_up: None,
            admitted_count: BTreeMap::new(),
            sessions: BTreeMap::new(),
            fee_cache: None,
            fee_candidates: vec![],
            reference_took_other_step: false,
            eager_expected: None,
            last_fee_answer: None,
            send_tx_count: 0,
            stats: Stats::default(),
            log: Fnv::default(),
            event_index: 0,
            synthetic_pow,
            desynced: false,
            ingest_rounds: 0,
            threshold_at_ingest_start: None,
            ingest_snapshot: None,
            active: active.iter().map(|s| s.to_string()).collect(),
            heartbeat_traps: 0,
            last_abstract: 0,
        })
    }

    pub fn is_active(&self, p: &str) -> bool {
        self.active.contains(p)
    }

    pub fn testnet_like(&self) -> bool {
        matches!(self.network, Network::Testnet | Network::Regtest)
    }

    pub fn block(&self, id: usize) -> &NetBlock {
        &self.net.blocks[&id]
    }

    pub fn id_of(&self, h: &Hash32) -> Option<usize> {
        self.net.by_hash.get(h).copied()
    }

    /// Ids of the chain genesis ..= `id` using the model's stable chain + tree.
    pub fn anchor_height(&self) -> u32 {
        self.stable_chain.len() as u32
    }

    pub fn best_chain(&self) -> Vec<usize> {
        self.tree.best_chain()
    }

    pub fn best_tip(&self) -> usize {
        *self.best_chain().last().unwrap()
    }

    pub fn max_announced_height(&self) -> Option<u32> {
        self.announced.values().map(|(h, _)| *h).max()
    }

    /// The sync gate of C14 from the model's point of view.
    pub fn model_synced(&self) -> bool {
        let best = self.anchor_height() + self.best_chain().len() as u32 - 1;
        match self.max_announced_height() {
            None => true,
            Some(h) => h <= best + 2,
        }
    }

    pub fn data_gate_open(&self) -> bool {
        self.api_access && (!self.sync_flag || self.model_synced())
    }

    fn log_str(&mut self, s: &str) {
        self.log.write_str(s);
    }

    // -------------------------------------------------------------------------------
    // Adapter: builds the concrete reply for a request.

    fn header_blob(bytes: Vec<u8>) -> BlockHeaderBlob {
        // The wire type has no length check; build it through serde as candid would.
        let json = serde_json::to_string(&bytes).unwrap();
        serde_json::from_str::<BlockHeaderBlob>(&json).expect("header blob")
    }

    fn offer_block_bytes(&self, o: &BlockOffer) -> Option<Vec<u8>> {
        Some(match o {
            BlockOffer::Block(id) => self.net.get(*id)?.bytes.clone(),
            BlockOffer::Truncated(id, len) => {
                let b = &self.net.get(*id)?.bytes;
                b[..(*len as usize).min(b.len().saturating_sub(1))].to_vec()
            }
            BlockOffer::Garbage(seed, len) => Rng::new(*seed).bytes(*len as usize),
            BlockOffer::Empty => vec![],
            BlockOffer::ReplyBlock(_) => return None,
        })
    }

    fn offer_header_bytes(&self, o: &HeaderOffer) -> Option<Vec<u8>> {
        Some(match o {
            HeaderOffer::Header(id) => self.net.get(*id)?.header_bytes(),
            HeaderOffer::Padded(id, extra) => {
                let mut b = self.net.get(*id)?.header_bytes();
                b.extend(Rng::new(*id as u64).bytes(*extra as usize));
                b
            }
            HeaderOffer::Short(id, len) => {
                let b = self.net.get(*id)?.header_bytes();
                b[..(*len as usize).min(79)].to_vec()
            }
            HeaderOffer::Garbage(seed, len) => Rng::new(*seed).bytes(*len as usize),
        })
    }

    /// True if the block is consensus-valid at the current simulated time on its own chain
    /// (what an honest, validating adapter relays).
    pub fn block_valid_now(&self, id: usize) -> bool {
        let b = &self.net.blocks[&id];
        let Some(parent) = b.parent else {
            return true;
        };
        if b.ledger.is_none() {
            return false;
        }
        if matches!(
            b.mutation,
            Mutation::NoTransactions | Mutation::NoCoinbase | Mutation::BadMerkleRoot | Mutation::DuplicateTx | Mutation::MerkleTailDup
        ) {
            return false;
        }
        if b.mutation == Mutation::None {
            return true; // valid by construction (the clock never lags an honest block)
        }
        let chain = self.net.headers_to(parent);
        rules::validate_header(&chain, &b.block.header, self.now, self.network, !self.synthetic_pow) == HeaderVerdict::Valid
    }

    /// Honest BFS answer to an initial request.
    fn honest_initial(
        &self,
        anchor: &Hash32,
        processed: &BTreeSet<Hash32>,
        max_blocks: usize,
        max_next: usize,
        page: usize,
        lag: usize,
        include_invalid: bool,
    ) -> (Vec<usize>, Vec<usize>) {
        let Some(anchor_id) = self.id_of(anchor) else {
            return (vec![], vec![]);
        };
        let max_id = self.net.blocks.keys().max().copied().unwrap_or(0);
        let visible = |b: &NetBlock| -> bool {
            (b.id + lag <= max_id || lag == 0) && (include_invalid || self.block_valid_now(b.id))
        };
        let mut known: BTreeSet<usize> = BTreeSet::new();
        known.insert(anchor_id);
        for h in processed {
            if let Some(id) = self.id_of(h) {
                known.insert(id);
            }
        }
        // BFS layers from the anchor over the network DAG, ordered by (height, id).
        let mut order: Vec<usize> = vec![];
        let mut frontier = vec![anchor_id];
        while !frontier.is_empty() {
            let mut next_frontier = vec![];
            for f in &frontier {
                for c in self.net.children_of(*f) {
                    if visible(&self.net.blocks[&c]) {
                        next_frontier.push(c);
                    }
                }
            }
            next_frontier.sort();
            order.extend(next_frontier.iter().copied());
            frontier = next_frontier;
        }
        let mut blocks = vec![];
        let mut have = known.clone();
        let mut total = 0usize;
        for id in &order {
            if known.contains(id) {
                continue;
            }
            let b = &self.net.blocks[id];
            let p = b.parent.unwrap();
            if !have.contains(&p) {
                continue;
            }
            if blocks.len() >= max_blocks {
                break;
            }
            if b.bytes.len() > page {
                if blocks.is_empty() {
                    blocks.push(*id);
                    have.insert(*id);
                }
                break;
            }
            if total + b.bytes.len() > page && !blocks.is_empty() {
                break;
            }
            total += b.bytes.len();
            blocks.push(*id);
            have.insert(*id);
        }
        let mut next = vec![];
        let mut have_h = have.clone();
        for id in &order {
            if have.contains(id) {
                continue;
            }
            if next.len() >= max_next {
                break;
            }
            let b = &self.net.blocks[id];
            if have_h.contains(&b.parent.unwrap()) {
                next.push(*id);
                have_h.insert(*id);
            }
        }
        (blocks, next)
    }

    /// Builds the response for `request` under `spec`. Also returns what the model should
    /// record as received (`None` = reject).
    pub fn build_reply(
        &mut self,
        request: &GetSuccessorsRequest,
        spec: &ReplySpec,
    ) -> Result<GetSuccessorsResponse, (u32, String)> {
        match (request, spec) {
            (_, ReplySpec::Reject(code)) => {
                self.stats.fault("F-rej");
                Err((*code as u32, "simulated reject".to_string()))
            }
            (GetSuccessorsRequest::FollowUp(i), _) => {
                // Only the honest answer makes sense for a follow-up; other specs fall back to it.
                match &self.paging {
                    Some(p) if (*i as usize + 1) < p.chunks.len() => {
                        Ok(GetSuccessorsResponse::FollowUp(p.chunks[*i as usize + 1].clone()))
                    }
                    _ => {
                        self.stats.fault("F-rej");
                        Err((4, "no such page".to_string()))
                    }
                }
            }
            (GetSuccessorsRequest::Initial(_), ReplySpec::Empty) => {
                self.stats.fault("F-empty");
                self.paging = None;
                Ok(GetSuccessorsResponse::Complete(GetSuccessorsCompleteResponse {
                    blocks: vec![],
                    next: vec![],
                }))
            }
            (GetSuccessorsRequest::Initial(init), ReplySpec::Honest { max_blocks, max_next, page, lag, include_invalid }) => {
                self.paging = None;
                let mut anchor = [0u8; 32];
                anchor.copy_from_slice(init.anchor.as_bytes());
                let processed: BTreeSet<Hash32> = init
                    .processed_block_hashes
                    .iter()
                    .map(|h| {
                        let mut a = [0u8; 32];
                        a.copy_from_slice(h.as_bytes());
                        a
                    })
                    .collect();
                if *include_invalid {
                    self.stats.fault("F-invalid-offered");
                }
                if *lag > 0 {
                    self.stats.fault("F-lag");
                }
                let (blocks, next) = self.honest_initial(
                    &anchor,
                    &processed,
                    (*max_blocks).max(1) as usize,
                    *max_next as usize,
                    *page as usize,
                    *lag as usize,
                    *include_invalid,
                );
                let next_blobs: Vec<BlockHeaderBlob> = next
                    .iter()
                    .map(|id| Self::header_blob(self.net.blocks[id].header_bytes()))
                    .collect();
                if blocks.len() == 1 && self.net.blocks[&blocks[0]].bytes.len() > *page as usize {
                    let bytes = self.net.blocks[&blocks[0]].bytes.clone();
                    let chunks: Vec<Vec<u8>> = bytes.chunks((*page).max(1) as usize).map(|c| c.to_vec()).collect();
                    if chunks.len() - 1 > 255 {
                        // cannot be expressed; send it whole
                        return Ok(GetSuccessorsResponse::Complete(GetSuccessorsCompleteResponse {
                            blocks: vec![bytes],
                            next: next_blobs,
                        }));
                    }
                    self.stats.probe("paged_reply");
                    let first = chunks[0].clone();
                    let n = (chunks.len() - 1) as u8;
                    self.paging = Some(Paging { chunks });
                    return Ok(GetSuccessorsResponse::Partial(GetSuccessorsPartialResponse {
                        partial_block: first,
                        next: next_blobs,
                        remaining_follow_ups: n,
                    }));
                }
                Ok(GetSuccessorsResponse::Complete(GetSuccessorsCompleteResponse {
                    blocks: blocks.iter().map(|id| self.net.blocks[id].bytes.clone()).collect(),
                    next: next_blobs,
                }))
            }
            (GetSuccessorsRequest::Initial(init), ReplySpec::HonestPoisoned { max_blocks, max_next, poison, at }) => {
                self.paging = None;
                self.stats.fault("F-poisoned");
                let mut anchor = [0u8; 32];
                anchor.copy_from_slice(init.anchor.as_bytes());
                let processed: BTreeSet<Hash32> = init
                    .processed_block_hashes
                    .iter()
                    .map(|h| {
                        let mut a = [0u8; 32];
                        a.copy_from_slice(h.as_bytes());
                        a
                    })
                    .collect();
                let (blocks, next) = self.honest_initial(&anchor, &processed, (*max_blocks).max(1) as usize, *max_next as usize, 2_000_000, 0, false);
                let mut b: Vec<Vec<u8>> = blocks.iter().map(|id| self.net.blocks[id].bytes.clone()).collect();
                let poison_bytes = match poison {
                    BlockOffer::ReplyBlock(i) if !b.is_empty() => Some(b[*i as usize % b.len()].clone()),
                    other => self.offer_block_bytes(other),
                };
                if let Some(p) = poison_bytes {
                    let pos = (*at as usize).min(b.len());
                    b.insert(pos, p);
                }
                let n: Vec<BlockHeaderBlob> = next
                    .iter()
                    .map(|id| Self::header_blob(self.net.blocks[id].header_bytes()))
                    .collect();
                Ok(GetSuccessorsResponse::Complete(GetSuccessorsCompleteResponse { blocks: b, next: n }))
            }
            (GetSuccessorsRequest::Initial(init), ReplySpec::HonestReversed { max_blocks, max_next }) => {
                self.paging = None;
                self.stats.fault("F-order");
                let mut anchor = [0u8; 32];
                anchor.copy_from_slice(init.anchor.as_bytes());
                let processed: BTreeSet<Hash32> = init
                    .processed_block_hashes
                    .iter()
                    .map(|h| {
                        let mut a = [0u8; 32];
                        a.copy_from_slice(h.as_bytes());
                        a
                    })
                    .collect();
                let (blocks, next) = self.honest_initial(&anchor, &processed, (*max_blocks).max(2) as usize, *max_next as usize, 2_000_000, 0, false);
                let b: Vec<Vec<u8>> = blocks.iter().rev().map(|id| self.net.blocks[id].bytes.clone()).collect();
                let n: Vec<BlockHeaderBlob> = next
                    .iter()
                    .map(|id| Self::header_blob(self.net.blocks[id].header_bytes()))
                    .collect();
                Ok(GetSuccessorsResponse::Complete(GetSuccessorsCompleteResponse { blocks: b, next: n }))
            }
            (GetSuccessorsRequest::Initial(_), ReplySpec::Explicit { blocks, next }) => {
                self.paging = None;
                self.stats.fault("F-explicit");
                let b: Vec<Vec<u8>> = blocks.iter().filter_map(|o| self.offer_block_bytes(o)).collect();
                let n: Vec<BlockHeaderBlob> = next
                    .iter()
                    .filter_map(|o| self.offer_header_bytes(o))
                    .map(Self::header_blob)
                    .collect();
                Ok(GetSuccessorsResponse::Complete(GetSuccessorsCompleteResponse { blocks: b, next: n }))
            }
            (GetSuccessorsRequest::Initial(_), ReplySpec::Paged { block, follow_ups, max_next }) => {
                self.stats.fault("F-pages");
                let Some(b) = self.net.get(*block) else {
                    self.paging = None;
                    return Ok(GetSuccessorsResponse::Complete(GetSuccessorsCompleteResponse::default()));
                };
                let bytes = b.bytes.clone();
                let pages = *follow_ups as usize + 1;
                // split into `pages` chunks (some possibly empty when the block is short)
                let mut chunks: Vec<Vec<u8>> = vec![];
                let base = bytes.len() / pages;
                let mut off = 0;
                for i in 0..pages {
                    let end = if i + 1 == pages { bytes.len() } else { off + base };
                    chunks.push(bytes[off..end].to_vec());
                    off = end;
                }
                let next_ids: Vec<usize> = self
                    .net
                    .children_of(*block)
                    .into_iter()
                    .take(*max_next as usize)
                    .collect();
                let next_blobs = next_ids
                    .iter()
                    .map(|id| Self::header_blob(self.net.blocks[id].header_bytes()))
                    .collect();
                let first = chunks[0].clone();
                self.paging = Some(Paging { chunks });
                Ok(GetSuccessorsResponse::Partial(GetSuccessorsPartialResponse {
                    partial_block: first,
                    next: next_blobs,
                    remaining_follow_ups: *follow_ups,
                }))
            }
        }
    }

    // -------------------------------------------------------------------------------
    // Model: what a processed reply must do (RefAdmission).

    fn chain_headers(&self, tip: usize) -> Vec<Header> {
        self.net.headers_to(tip)
    }

    /// Verdict for a decoded block offered at time `now`: Ok(id) if it must be admitted.
    fn admission_verdict(&self, bytes: &[u8]) -> Result<usize, &'static str> {
        use bitcoin::consensus::Decodable;
        let Ok(block) = bitcoin::Block::consensus_decode(&mut &bytes[..]) else {
            return Err("undecodable");
        };
        let hash = block.block_hash().to_byte_array();
        let parent_hash = block.header.prev_blockhash.to_byte_array();
        let Some(parent) = self.id_of(&parent_hash) else {
            return Err("unknown-parent");
        };
        if !self.tree.contains(parent) {
            return Err("parent-not-unstable");
        }
        // The simulator only offers blocks that exist in BtcNet (possibly with trailing
        // modifications that make them undecodable), so the id is known.
        let Some(id) = self.id_of(&hash) else {
            return Err("not-a-net-block");
        };
        if self.tree.contains(id) {
            return Err("duplicate");
        }
        let nb = &self.net.blocks[&id];
        let chain = self.chain_headers(parent);
        let v = rules::validate_header(&chain, &block.header, self.now, self.network, !self.synthetic_pow);
        if v != HeaderVerdict::Valid {
            return Err("invalid-header");
        }
        match nb.mutation {
            Mutation::NoTransactions
            | Mutation::NoCoinbase
            | Mutation::BadMerkleRoot
            | Mutation::DuplicateTx
            | Mutation::MerkleTailDup => return Err("invalid-body"),
            _ => {}
        }
        if nb.ledger.is_none() {
            // not transaction-valid: outside the domain; never offered by the generator
            return Err("not-tx-valid");
        }
        Ok(id)
    }

    /// Processes a complete reply in the model. Returns (admitted ids, reject class).
    pub fn model_process_reply(&mut self, reply: &ModelReply) -> (Vec<usize>, Option<&'static str>) {
        let mut admitted = vec![];
        for bytes in &reply.blocks {
            match self.admission_verdict(bytes) {
                Ok(id) => {
                    let parent = self.net.blocks[&id].parent.unwrap();
                    let d = self.net.blocks[&id].difficulty;
                    self.tree.insert(id, parent, d);
                    let h = self.net.blocks[&id].hash;
                    self.announced.remove(&h);
                    *self.admitted_count.entry(id).or_insert(0) += 1;
                    admitted.push(id);
                }
                Err(why) => return (admitted, Some(why)),
            }
        }
        // announced headers
        for blob in &reply.next {
            if blob.len() < 80 {
                self.stats.probe("next_header_undecodable");
                break;
            }
            use bitcoin::consensus::Decodable;
            let Ok(header) = Header::consensus_decode(&mut &blob[..80]) else {
                break;
            };
            let hash = header.block_hash().to_byte_array();
            if self.announced.contains_key(&hash) {
                continue;
            }
            // chain of announced headers below it
            let mut ann_chain: Vec<Header> = vec![];
            let mut cur = header.prev_blockhash.to_byte_array();
            while let Some((_, h)) = self.announced.get(&cur) {
                ann_chain.push(*h);
                cur = h.prev_blockhash.to_byte_array();
            }
            ann_chain.reverse();
            // `cur` must now be a block of the tree
            let Some(base) = self.id_of(&cur) else {
                break;
            };
            if !self.tree.contains(base) {
                break;
            }
            // the first element above the tree must not already be a block of the tree
            let first_hash = match ann_chain.first() {
                Some(h) => h.block_hash().to_byte_array(),
                None => hash,
            };
            if let Some(fid) = self.id_of(&first_hash) {
                if self.tree.contains(fid) {
                    break;
                }
            }
            let mut chain = self.chain_headers(base);
            let base_height = self.net.blocks[&base].height;
            chain.extend(ann_chain.iter().copied());
            let v = rules::validate_header(&chain, &header, self.now, self.network, !self.synthetic_pow);
            if v != HeaderVerdict::Valid {
                self.stats.probe("next_header_invalid");
                break;
            }
            let height = base_height + ann_chain.len() as u32 + 1;
            self.announced.insert(hash, (height, header));
        }
        (admitted, None)
    }
}
