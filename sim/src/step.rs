//! Applying one event to the world: runs the real canister, advances the model on what was
//! observed, and checks the per-message oracles (C03, C08, C10, C13, C20 parts).

use crate::canister::{self, Budget, Polled, Trap};
use crate::model::{self, Hash32};
use crate::sim::*;
use crate::trace::*;
use ic_btc_canister::types::{GetSuccessorsRequest, GetSuccessorsResponse};
use std::collections::BTreeSet;

#[derive(Clone, Copy, PartialEq, Eq, Debug)]
pub enum MsgKind {
    HeartbeatStart,
    Callback,
}

impl World {
    fn bump(&mut self, kind: &str) {
        *self.stats.events_by_kind.entry(kind.to_string()).or_insert(0) += 1;
    }

    /// Applies one event. `Ok(false)` means the event was not applicable (dangling reference
    /// in a shrunk trace) and was skipped.
    pub fn apply(&mut self, ev: &Event) -> Result<bool, Violation> {
        self.log.write_str(ev.kind());
        let r = self.apply_inner(ev);
        match r {
            Ok(applied) => {
                if applied {
                    self.bump(ev.kind());
                }
                Ok(applied)
            }
            Err(mut v) => {
                v.at_event = self.event_index;
                Err(v)
            }
        }
    }

    fn apply_inner(&mut self, ev: &Event) -> Result<bool, Violation> {
        match ev {
            Event::Mine(spec) => {
                let Some(id) = self.net.mine(spec, self.now) else {
                    return Ok(false);
                };
                let b = &self.net.blocks[&id];
                if b.difficulty_overridden {
                    ic_btc_types::verif_hooks::set_difficulty_override(
                        ic_btc_types::BlockHash::from(b.hash.to_vec()),
                        b.difficulty,
                    );
                }
                let h = b.hash;
                let t = b.block.header.time as u64;
                let plain = b.mutation == crate::net::Mutation::None;
                self.log.write(&h);
                // real time passes while blocks are mined: the clock never lags an honest block
                if plain && t > self.now {
                    self.stats.simulated_seconds += t - self.now;
                    self.now = t;
                }
                Ok(true)
            }
            Event::Time { secs } => {
                self.now += *secs;
                self.stats.simulated_seconds += *secs;
                if *secs >= 3600 {
                    self.stats.fault("F-clock");
                }
                Ok(true)
            }
            Event::Heartbeat { pause_at } => {
                self.now += 1;
                self.stats.simulated_seconds += 1;
                self.run_heartbeat(*pause_at)?;
                Ok(true)
            }
            Event::Deliver { task, reply, pause_at } => {
                if self.tasks.is_empty() {
                    return Ok(false);
                }
                let idx = (*task).min(self.tasks.len() - 1);
                self.run_deliver(idx, reply, *pause_at)?;
                Ok(true)
            }
            Event::SetConfig(spec) => {
                self.apply_config(spec)?;
                Ok(true)
            }
            Event::Upgrade { arg } => {
                self.run_upgrade(arg.as_ref())?;
                Ok(true)
            }
            Event::Client(op) => self.run_client(op),
            Event::Quiesce => {
                self.quiesce()?;
                Ok(true)
            }
            Event::WatchdogRound(_) => Ok(false),
        }
    }

    fn apply_config(&mut self, spec: &ConfigSpec) -> Check {
        self.stats.fault("F-cfg");
        let req = set_config_request(spec);
        match canister::set_config(req) {
            Ok(()) => {}
            Err(Trap(msg)) => {
                return Err(violation("C09", "set_config-trap", format!("set_config trapped: {msg}")));
            }
        }
        self.model_apply_config(spec);
        Ok(())
    }

    pub fn model_apply_config(&mut self, spec: &ConfigSpec) {
        if let Some(t) = spec.threshold {
            self.threshold = t;
        }
        if let Some(s) = spec.syncing {
            self.syncing = s;
        }
        if let Some(a) = spec.api_access {
            self.api_access = a;
        }
        if let Some(f) = spec.sync_flag {
            self.sync_flag = f;
        }
        if let Some(l) = spec.lazy_fees {
            self.lazy_fees = l;
        }
        if let Some(f) = &spec.fees {
            self.fees = fees_of(f);
            self.fees_explicit = true;
        }
    }

    fn heartbeat_trap(&mut self, msg: String) -> Violation {
        self.heartbeat_traps += 1;
        // Specific, recognisable cause: the anchor finished ingesting but no child is stable any
        // more because the threshold was raised while its ingestion was paused.
        if let Some(t0) = self.threshold_at_ingest_start {
            let verdict = model::stability_verdict(&self.tree, self.threshold, self.testnet_like());
            if self.threshold > t0 && verdict.allowed.is_empty() {
                return violation(
                    "C03",
                    "trap-pop-after-threshold-raise",
                    format!(
                        "stability_threshold raised from {t0} to {} while the anchor's ingestion was paused; when ingestion completed no child was stable and the heartbeat trapped: {msg}",
                        self.threshold
                    ),
                );
            }
        }
        // A trap of the heartbeat is itself the violation (C10: arbitrary replies never trap;
        // C13: fetching survives any reply sequence; C20: no "must exist" failure).
        let prop = if self.is_active("C10") {
            "C10"
        } else if self.is_active("C20") {
            "C20"
        } else if self.is_active("C08") {
            "C08"
        } else if self.is_active("C09") {
            "C09"
        } else {
            "C13"
        };
        violation(prop, "heartbeat-trap", format!("heartbeat trapped: {msg}"))
    }

    pub fn run_heartbeat(&mut self, pause_at: u64) -> Check {
        if pause_at != 0 {
            self.stats.fault("F-slice");
        }
        let before = observe();
        let tree_before = self.tree.clone();
        let threshold_before = self.threshold;
        if !self.tasks.is_empty() {
            self.stats.probe("heartbeat_while_call_outstanding");
            if self.tasks.len() >= 1 && self.stats.probes.get("heartbeat_while_call_outstanding").copied().unwrap_or(0) >= 2 {
                self.stats.probe("three_or_more_overlapping_heartbeats");
            }
        }
        let res = canister::heartbeat(Budget { pause_at }, self.now);
        match res {
            Ok(Polled::Done) => {}
            Ok(Polled::Suspended(t)) => {
                self.tasks.push(t);
                if self.tasks.len() > 1 {
                    self.stats.probe("overlapping_tasks");
                }
            }
            Err(Trap(msg)) => return Err(self.heartbeat_trap(msg)),
        }
        let after = observe();
        self.sync_model(MsgKind::HeartbeatStart, &before, &after, &tree_before, threshold_before)
    }

    pub fn run_deliver(&mut self, idx: usize, spec: &ReplySpec, pause_at: u64) -> Check {
        self.now += 1;
        self.stats.simulated_seconds += 1;
        let task = self.tasks.remove(idx);
        let ticket = task.ticket;
        let request = canister::outstanding_requests()
            .into_iter()
            .find(|(t, _)| *t == ticket)
            .map(|(_, r)| r)
            .expect("suspended task has an outstanding request");
        let reply = self.build_reply(&request, spec);
        let before = observe();
        let tree_before = self.tree.clone();
        let threshold_before = self.threshold;
        // Model: what the canister must hold after this reply.
        self.model_receive(&request, &reply)?;
        match canister::deliver(task, reply, Budget { pause_at }, self.now) {
            Ok(Polled::Done) => {}
            Ok(Polled::Suspended(t)) => {
                self.tasks.push(t);
                return Err(violation(
                    "C13",
                    "second-await",
                    "a heartbeat suspended a second time after its reply".into(),
                ));
            }
            Err(Trap(msg)) => return Err(self.heartbeat_trap(msg)),
        }
        let after = observe();
        // C13 (iii): what the canister stored equals what the model assembled.
        if self.is_active("C13") || self.is_active("C09") {
            self.check_stored_response(&after)?;
        }
        self.sync_model(MsgKind::Callback, &before, &after, &tree_before, threshold_before)
    }

    /// Model of reply reception (the storage step): rejects clear, pages accumulate.
    fn model_receive(
        &mut self,
        request: &GetSuccessorsRequest,
        reply: &Result<GetSuccessorsResponse, (u32, String)>,
    ) -> Check {
        match reply {
            Err(_) => {
                self.pending = ModelPending::None;
                self.expect_follow_up = None;
            }
            Ok(GetSuccessorsResponse::Complete(c)) => {
                self.pending = ModelPending::Complete(ModelReply {
                    blocks: c.blocks.clone(),
                    next: c.next.iter().map(|h| h.as_slice().to_vec()).collect(),
                });
                self.expect_follow_up = None;
            }
            Ok(GetSuccessorsResponse::Partial(p)) => {
                let next: Vec<Vec<u8>> = p.next.iter().map(|h| h.as_slice().to_vec()).collect();
                if p.remaining_follow_ups == 0 {
                    // zero follow-ups: the block is complete as it stands
                    self.pending = ModelPending::Complete(ModelReply {
                        blocks: vec![p.partial_block.clone()],
                        next,
                    });
                    self.expect_follow_up = None;
                    self.stats.probe("partial_with_zero_follow_ups");
                } else {
                    self.pending = ModelPending::Partial {
                        bytes: p.partial_block.clone(),
                        next,
                        done: 0,
                        total: p.remaining_follow_ups,
                    };
                    self.expect_follow_up = Some(0);
                }
            }
            Ok(GetSuccessorsResponse::FollowUp(chunk)) => {
                let _ = request;
                match std::mem::replace(&mut self.pending, ModelPending::None) {
                    ModelPending::Partial { mut bytes, next, done, total } => {
                        bytes.extend_from_slice(chunk);
                        let done = done + 1;
                        if done == total {
                            self.pending = ModelPending::Complete(ModelReply {
                                blocks: vec![bytes],
                                next,
                            });
                            self.expect_follow_up = None;
                            self.stats.probe("pages_reassembled");
                        } else {
                            self.pending = ModelPending::Partial { bytes, next, done, total };
                            self.expect_follow_up = Some(done);
                        }
                    }
                    _ => {
                        // The adapter only answers FollowUp to FollowUp requests, which the
                        // canister only sends while it holds a partial response.
                        return Err(violation(
                            "C13",
                            "follow-up-without-partial",
                            "follow-up reply delivered while the model holds no partial response".into(),
                        ));
                    }
                }
            }
        }
        Ok(())
    }

    fn check_stored_response(&mut self, after: &Observed) -> Check {
        self.stats.oracle_comparisons += 1;
        let ok = match (&self.pending, &after.resp) {
            (ModelPending::None, RespKind::None) => true,
            (ModelPending::Partial { bytes, done, total, .. }, RespKind::Partial { bytes: b, pages_done, remaining }) => {
                bytes == b && done == pages_done && total == remaining
            }
            (ModelPending::Complete(r), RespKind::Complete { blocks, next }) => &r.blocks == blocks && &r.next == next,
            // the complete response was processed in the message that received it (not today's
            // phase order, but nothing in C13 forbids it); admission is checked by sync_model
            (ModelPending::Complete(_), RespKind::None) => {
                self.stats.probe("processed_in_callback");
                true
            }
            _ => false,
        };
        if !ok {
            return Err(violation(
                "C13",
                "stored-response-mismatch",
                format!(
                    "after the reply the canister stores {:?} but the model expects {}",
                    short_resp(&after.resp),
                    short_pending(&self.pending)
                ),
            ));
        }
        Ok(())
    }

    /// Brings the model up to date with what the canister did in one message and checks the
    /// constraints on that step.
    fn sync_model(
        &mut self,
        kind: MsgKind,
        before: &Observed,
        after: &Observed,
        tree_at_start: &model::RefTree,
        threshold_at_start: u32,
    ) -> Check {
        // every observation of the canister's sync state goes into the run's log digest
        self.log.write_str(&format!("{:?}{:?}", kind, after.stable_height));
        for h in &after.hashes {
            self.log.write(h);
        }
        self.log.write_str(&short_resp(&after.resp));
        self.log.write_u64(after.deser_errs ^ (after.insert_errs << 20) ^ (after.rejects << 40));

        // ---- C13 (i)(ii): requests issued in this message ----
        let new_requests = canister::take_request_log();
        let anchor_at_start = self.tree.anchor;
        let others_at_start: BTreeSet<Hash32> = self
            .tree
            .nodes
            .keys()
            .filter(|i| **i != self.tree.anchor)
            .map(|i| self.block(*i).hash)
            .collect();
        let pending_complete_at_start = matches!(self.pending, ModelPending::Complete(_));
        if canister::outstanding_requests().len() > 1 {
            return Err(violation(
                "C13",
                "two-outstanding-requests",
                format!("{} get_successors calls are outstanding at once", canister::outstanding_requests().len()),
            ));
        }

        // ---- C08 (b): nothing is fetched or processed while a block is being ingested ----
        // ("while it is in progress": the block was mid-ingestion when the message began and still
        // is when it ends; a message in which the ingestion *finishes* may go on to fetch)
        if before.ingesting.is_some() && after.ingesting == before.ingesting {
            if !new_requests.is_empty() {
                return Err(violation(
                    "C08",
                    "fetch-during-ingestion",
                    "a get_successors request was issued while a block was being ingested".into(),
                ));
            }
            if kind == MsgKind::HeartbeatStart && before.resp != after.resp {
                return Err(violation(
                    "C08",
                    "process-during-ingestion",
                    "the stored response changed during a heartbeat that started mid-ingestion".into(),
                ));
            }
        }

        // ---- stable advances (C03) ----
        let mut advanced = false;
        if after.stable_height < before.stable_height {
            return Err(violation(
                "C03",
                "stable-height-decreased",
                format!("stable height went from {} to {}", before.stable_height, after.stable_height),
            ));
        }
        if after.stable_height > before.stable_height {
            advanced = true;
            let new_anchor = after.hashes[0];
            let Some(new_anchor_id) = self.id_of(&new_anchor) else {
                return Err(self.desync("anchor-unknown", "new anchor is not a network block".into()));
            };
            if !self.tree.contains(new_anchor_id) {
                return Err(self.desync("anchor-not-in-model", format!("new anchor #{new_anchor_id} is not in the model tree")));
            }
            let path = self.tree.path_to(new_anchor_id);
            if path.len() as u32 - 1 != after.stable_height - before.stable_height {
                return Err(violation(
                    "C03",
                    "advance-height-mismatch",
                    format!(
                        "stable height advanced by {} but the new anchor is {} blocks above the old one",
                        after.stable_height - before.stable_height,
                        path.len() - 1
                    ),
                ));
            }
            for (step, child) in path.iter().skip(1).enumerate() {
                let mut verdict = model::stability_verdict(&self.tree, self.threshold, self.testnet_like());
                self.stats.oracle_comparisons += 1;
                if !verdict.allowed.contains(child) && step == 0 && before.ingesting.is_some() {
                    // The anchor was mid-ingestion when this message began: the decision was
                    // taken with the threshold in force when its ingestion started.
                    if let Some(t0) = self.threshold_at_ingest_start {
                        verdict = model::stability_verdict(&self.tree, t0, self.testnet_like());
                        if verdict.allowed.contains(child) {
                            self.stats.probe("advance_completed_after_threshold_change");
                        }
                    }
                }
                if !verdict.allowed.contains(child) {
                    // The reference takes *its* step (the child the rule names, if any), so that the
                    // caller can still hold the canister's answers against the reference: a canister
                    // that moved its anchor off the chain being served answers every tip, header
                    // and UTXO query from the wrong branch from now on.
                    if step == 0 {
                        if let Some(r) = verdict.required.or_else(|| verdict.allowed.first().copied()) {
                            let old_anchor = self.tree.anchor;
                            self.tree.advance_to(r);
                            self.stable_chain.push(old_anchor);
                            let new_h = self.anchor_height();
                            self.announced.retain(|_, (h, _)| *h > new_h);
                            self.reference_took_other_step = true;
                        }
                    }
                    return Err(violation(
                        "C03",
                        "advance-not-due",
                        format!(
                            "anchor advanced to block #{child} although the stability rule allows {:?} (threshold {}, tree of {} blocks)",
                            verdict.allowed,
                            self.threshold,
                            self.tree.nodes.len()
                        ),
                    ));
                }
                let best = self.tree.best_chain();
                if best.len() < 2 || best[1] != *child {
                    // (iii) the new anchor lies on the chain being served
                    // (ties between equally heavy branches cannot stabilise for threshold >= 1)
                    if self.is_active("C03") {
                        return Err(violation(
                            "C03",
                            "anchor-off-best-chain",
                            format!("anchor advanced to #{child} which is not on the model's best chain {:?}", best),
                        ));
                    }
                }
                let old_anchor = self.tree.anchor;
                let n_children = self.tree.nodes[&old_anchor].children.len();
                let gone = self.tree.advance_to(*child);
                if n_children > 1 {
                    self.stats.probe("anchor_advance_discards_fork");
                }
                let _ = gone;
                self.stable_chain.push(old_anchor);
                let new_h = self.anchor_height();
                self.announced.retain(|_, (h, _)| *h > new_h);
                self.stats.probe("anchor_advance");
            }
            self.ingest_rounds = 0;
            self.threshold_at_ingest_start = None;
        }

        // ---- mid-ingestion (C03 ii, C08 c) ----
        if let Some(h) = after.ingesting {
            let anchor_hash = self.block(self.tree.anchor).hash;
            if h != anchor_hash {
                return Err(violation(
                    "C03",
                    "ingesting-non-anchor",
                    "the block being ingested is not the anchor".into(),
                ));
            }
            let verdict = model::stability_verdict(&self.tree, self.threshold, self.testnet_like());
            if verdict.allowed.is_empty() {
                // The decision to ingest was taken on the tree when ingestion began; with a
                // threshold raised meanwhile it may no longer be due. Only flag when the
                // threshold did not change.
                if self.threshold == threshold_at_start && before.ingesting.is_none() {
                    return Err(violation(
                        "C03",
                        "ingestion-not-due",
                        "ingestion of the anchor began although no child is stable".into(),
                    ));
                }
            }
            if self.ingest_rounds == 0 {
                self.threshold_at_ingest_start = Some(threshold_at_start);
            }
            self.ingest_rounds += 1;
            self.stats.probe("ingestion_paused");
            if self.ingest_rounds >= 2 {
                self.stats.probe("paused_twice_in_one_block");
            }
        }

        // ---- never withheld (C03 ii) ----
        if kind == MsgKind::HeartbeatStart && after.ingesting.is_none() && !advanced {
            let verdict = model::stability_verdict(tree_at_start, threshold_at_start, self.testnet_like());
            self.stats.oracle_comparisons += 1;
            if let Some(req) = verdict.required {
                if self.threshold == threshold_at_start {
                    return Err(violation(
                        "C03",
                        "advance-withheld",
                        format!(
                            "a heartbeat completed without advancing the anchor although child #{req} is stable (threshold {})",
                            threshold_at_start
                        ),
                    ));
                }
            }
        }
        if kind == MsgKind::HeartbeatStart && advanced && after.ingesting.is_none() {
            // "On the next ingestion opportunity": a heartbeat that advanced the anchor has used its
            // opportunity. Whether it goes on to a second block that is already due (today's loop)
            // or leaves it to the next heartbeat is not part of the statement; the next heartbeat is
            // then checked by the clause above (an advance due at its start must happen in it).
            let verdict = model::stability_verdict(&self.tree, self.threshold, self.testnet_like());
            if verdict.required.is_some() {
                self.stats.probe("advance_left_for_next_heartbeat");
            }
        }

        // ---- admission (C10) ----
        // A complete response the model holds (stored earlier, or received in this very message) is
        // gone from the canister: it has been processed.
        let processed = matches!(self.pending, ModelPending::Complete(_)) && after.resp == RespKind::None;
        if processed {
            let reply = match std::mem::replace(&mut self.pending, ModelPending::None) {
                ModelPending::Complete(r) => r,
                other => {
                    self.pending = other;
                    return Err(self.desync("processed-without-pending", "canister processed a response the model does not hold".into()));
                }
            };
            let (admitted, reject) = self.model_process_reply(&reply);
            self.stats.oracle_comparisons += 1;
            if !admitted.is_empty() {
                self.stats.probe("blocks_admitted");
            }
            if let Some(why) = reject {
                self.stats.probe(&format!("reject_{why}"));
            }
            // error counters: exactly one of them moves by one on a reject, none otherwise
            let d_deser = after.deser_errs - before.deser_errs;
            let d_ins = after.insert_errs - before.insert_errs;
            let expect = match reject {
                None => (0, 0),
                Some("undecodable") => (1, 0),
                Some(_) => (0, 1),
            };
            // The statement says "an error counter": which of the two counters records a given
            // class of reject is not part of it, only that exactly one error is counted.
            let ok = match reject {
                None => (d_deser, d_ins) == (0, 0),
                Some(_) => d_deser + d_ins == 1,
            };
            if (d_deser, d_ins) != expect && ok {
                self.stats.probe("error_counted_in_other_counter");
            }
            if self.is_active("C10") && !ok {
                return Err(violation(
                    "C10",
                    "error-counter-mismatch",
                    format!(
                        "reply with reject class {:?}: deserialize/insert error counters moved by {:?}, expected {:?}",
                        reject,
                        (d_deser, d_ins),
                        expect
                    ),
                ));
            }
        } else if kind == MsgKind::HeartbeatStart
            && matches!(before.resp, RespKind::Complete { .. })
            && before.resp == after.resp
            && before.ingesting.is_none()
            && after.ingesting.is_none()
            && !advanced
            && new_requests.is_empty()
        {
            // A complete response is waiting, nothing else happened, yet it was not processed.
            return Err(violation(
                "C13",
                "response-not-processed",
                "a heartbeat with a complete response stored and nothing to ingest did not process it".into(),
            ));
        }

        // ---- C13 (i)(ii): requests issued in this message ----
        // The request must describe the tree either as it stood when the message began or as it
        // stands now (a heartbeat may legitimately ingest or process first and fetch afterwards).
        for r in &new_requests {
            self.check_request(r, (anchor_at_start, &others_at_start, pending_complete_at_start))?;
        }

        if before.hashes != after.hashes || before.stable_height != after.stable_height {
            for s in self.sessions.values_mut() {
                if !s.done {
                    s.interleaved += 1;
                }
            }
        }

        // ---- unstable set equality (C10 / base consistency) ----
        let canister_set: BTreeSet<Hash32> = after.hashes.iter().copied().collect();
        let model_set: BTreeSet<Hash32> = self.tree.nodes.keys().map(|i| self.block(*i).hash).collect();
        self.stats.oracle_comparisons += 1;
        if canister_set != model_set || after.hashes.len() != canister_set.len() {
            let extra: Vec<usize> = canister_set.difference(&model_set).filter_map(|h| self.id_of(h)).collect();
            let missing: Vec<usize> = model_set.difference(&canister_set).filter_map(|h| self.id_of(h)).collect();
            let prop = if advanced { "C03" } else { "C10" };
            let v = violation(
                prop,
                "unstable-set-mismatch",
                format!(
                    "canister holds blocks the model does not: {:?}; model holds blocks the canister does not: {:?}",
                    extra, missing
                ),
            );
            self.desynced = true;
            return Err(v);
        }
        if after.hashes[0] != self.block(self.tree.anchor).hash {
            return Err(self.desync("anchor-mismatch", "canister and model disagree on the anchor".into()));
        }
        if after.stable_height != self.anchor_height() {
            return Err(self.desync("stable-height-mismatch", format!("canister stable height {} vs model {}", after.stable_height, self.anchor_height())));
        }
        // ---- C03 (i): the block recorded at a stable height never changes ----
        if self.is_active("C03") {
            self.check_stable_records(advanced)?;
        }
        Ok(())
    }

    /// C03 (i): for every stable height the canister's stable record (header store) names the block
    /// that stabilised at that height — present, and never a different one. Newly stabilised heights
    /// and a rotating sample of older ones after every message; `full` = every height.
    pub fn check_stable_records(&mut self, full: bool) -> Check {
        let n = self.stable_chain.len();
        if n == 0 {
            return Ok(());
        }
        let mut heights: Vec<usize> = vec![];
        if full && n <= 64 {
            heights.extend(0..n);
        } else {
            // the most recent ones (an advance may add several) plus a rotating older sample
            heights.extend(n.saturating_sub(3)..n);
            let r = self.event_index as usize;
            heights.push(r % n);
            heights.push((r * 7 + 3) % n);
            if full {
                heights.extend((0..n).step_by((n / 48).max(1)));
            }
        }
        for h in heights {
            let want = self.block(self.stable_chain[h]).hash;
            let got: Option<Hash32> = ic_btc_canister::with_state(|s| s.stable_block_headers.get_with_height(h as u32)).map(|hd| {
                let mut a = [0u8; 32];
                a.copy_from_slice(&bitcoin::hashes::Hash::to_byte_array(hd.block_hash()));
                a
            });
            self.stats.oracle_comparisons += 1;
            if got != Some(want) {
                return Err(violation(
                    "C03",
                    "stable-record-wrong",
                    format!(
                        "the block recorded at stable height {h} is {} but block #{} stabilised there",
                        got.map(hex::encode).unwrap_or_else(|| "missing".into()),
                        self.stable_chain[h]
                    ),
                ));
            }
        }
        Ok(())
    }

    pub fn desync(&mut self, kind: &str, detail: String) -> Violation {
        self.desynced = true;
        violation("C10", kind, detail)
    }

    /// RefFetch: the request grammar of C13.
    fn check_request(&mut self, r: &GetSuccessorsRequest, at_start: (usize, &BTreeSet<Hash32>, bool)) -> Check {
        self.stats.oracle_comparisons += 1;
        match r {
            GetSuccessorsRequest::FollowUp(k) => match self.expect_follow_up {
                Some(e) if e == *k => Ok(()),
                other => Err(violation(
                    "C13",
                    "bad-follow-up-index",
                    format!("FollowUp({k}) requested, grammar expects {:?}", other),
                )),
            },
            GetSuccessorsRequest::Initial(init) => {
                if self.expect_follow_up.is_some() {
                    return Err(violation(
                        "C13",
                        "initial-while-partial",
                        format!("Initial request issued while FollowUp({:?}) is due", self.expect_follow_up),
                    ));
                }
                if matches!(self.pending, ModelPending::Complete(_)) && at_start.2 {
                    return Err(violation(
                        "C13",
                        "request-while-complete-stored",
                        "a request was issued while a complete response awaits processing".into(),
                    ));
                }
                // anchor + exactly the other unstable hashes (as of the start of the message)
                let anchor_hash = self.block(self.tree.anchor).hash;
                let model_others: BTreeSet<Hash32> = self
                    .tree
                    .nodes
                    .keys()
                    .filter(|i| **i != self.tree.anchor)
                    .map(|i| self.block(*i).hash)
                    .collect();
                let req_anchor: [u8; 32] = init.anchor.as_bytes().try_into().unwrap();
                let req_others: BTreeSet<Hash32> = init
                    .processed_block_hashes
                    .iter()
                    .map(|h| h.as_bytes().try_into().unwrap())
                    .collect();
                let fits_now = req_anchor == anchor_hash && req_others == model_others;
                let fits_start = req_anchor == self.block(at_start.0).hash && &req_others == at_start.1;
                if !(fits_now || fits_start)
                    || req_others.len() != init.processed_block_hashes.len()
                    || init.network != self.network
                {
                    return Err(violation(
                        "C13",
                        "bad-initial-request",
                        format!(
                            "Initial request names anchor {} and {} processed hashes; model anchor #{}, {} other unstable blocks",
                            hex::encode(req_anchor),
                            init.processed_block_hashes.len(),
                            self.tree.anchor,
                            model_others.len()
                        ),
                    ));
                }
                Ok(())
            }
        }
    }

    pub fn run_upgrade(&mut self, arg: Option<&ConfigSpec>) -> Check {
        self.stats.fault("F-upg");
        let before = observe();
        if !self.tasks.is_empty() {
            self.stats.probe("upgrade_with_call_in_flight");
        }
        match &before.resp {
            RespKind::Partial { .. } => self.stats.probe("upgrade_with_partial_pages"),
            RespKind::Complete { .. } => self.stats.probe("upgrade_with_complete_response"),
            RespKind::None => {}
        }
        if before.ingesting.is_some() {
            self.stats.probe("upgrade_while_ingestion_paused");
        }
        let tasks = std::mem::take(&mut self.tasks);
        let req = arg.map(set_config_request);
        if let Err(Trap(msg)) = canister::upgrade(tasks, req, self.now) {
            return Err(violation("C09", "upgrade-trap", format!("upgrade trapped: {msg}")));
        }
        // model: fetch state abandoned
        self.pending = ModelPending::None;
        self.expect_follow_up = None;
        self.paging = None;
        if let Some(a) = arg {
            self.model_apply_config(a);
        }
        canister::take_request_log();
        let after = observe();
        if !self.is_active("C09") {
            // other profiles only need the model to follow; C09's own oracles are not theirs
            return Ok(());
        }
        if after.resp != RespKind::None || after.is_fetching {
            return Err(violation(
                "C09",
                "fetch-state-survived-upgrade",
                "after an upgrade a response or the fetch lock is still held".into(),
            ));
        }
        let set = |o: &Observed| -> BTreeSet<Hash32> { o.hashes.iter().copied().collect() };
        if set(&after) != set(&before) || after.hashes.first() != before.hashes.first() || after.stable_height != before.stable_height || after.ingesting != before.ingesting {
            return Err(violation(
                "C09",
                "sync-state-changed-by-upgrade",
                "unstable blocks, stable height or ingestion state changed across an upgrade".into(),
            ));
        }
        Ok(())
    }

    /// Bounded-liveness phase: honest immediate replies, generous budgets.
    pub fn quiesce(&mut self) -> Check {
        // make sure syncing is on
        if !self.syncing {
            let spec = ConfigSpec {
                threshold: None,
                syncing: Some(true),
                api_access: None,
                sync_flag: None,
                lazy_fees: None,
                fees: None,
            };
            self.apply_config(&spec)?;
        }
        // Blocks with timestamps in the future become valid once the clock passes; move the
        // clock past every honest block's time.
        let max_time = self
            .net
            .blocks
            .values()
            .filter(|b| b.is_honest())
            .map(|b| b.block.header.time as u64)
            .max()
            .unwrap_or(0);
        if max_time > self.now + 7200 {
            self.now = max_time - 7000;
        }
        let honest = ReplySpec::Honest {
            max_blocks: 6,
            max_next: 8,
            page: 2_000_000,
            lag: 0,
            include_invalid: false,
        };
        // Deliver whatever is outstanding first.
        while !self.tasks.is_empty() {
            self.run_deliver(0, &honest, 0)?;
        }
        let valid_blocks = self.net.blocks.len() as u64;
        let bound = 6 * valid_blocks + 40 + 2 * 256; // + outstanding pages of a paged reply
        let mut idle_rounds = 0;
        let mut rounds = 0u64;
        loop {
            rounds += 1;
            if rounds > bound {
                return Err(violation(
                    "C13",
                    "liveness-bound-exceeded",
                    format!("no quiescence after {bound} heartbeats with an honest block source"),
                ));
            }
            let before = observe();
            let set_before = self.tree.nodes.len();
            let ann_before = self.announced.len();
            self.now += 1;
            self.run_heartbeat(0)?;
            while !self.tasks.is_empty() {
                self.run_deliver(0, &honest, 0)?;
            }
            let after = observe();
            let work_stored = match &after.resp {
                RespKind::None => false,
                RespKind::Partial { .. } => true,
                RespKind::Complete { blocks, next } => !blocks.is_empty() || !next.is_empty(),
            };
            let progressed = before.hashes != after.hashes
                || before.stable_height != after.stable_height
                || after.ingesting.is_some()
                || set_before != self.tree.nodes.len()
                || ann_before != self.announced.len()
                || work_stored;
            if std::env::var("BTCSIM_DEBUG").is_ok() {
                eprintln!(
                    "quiesce round {rounds}: tree {} anchor #{} stable {} ingesting {} resp {} pending {} progressed {progressed} now {}",
                    self.tree.nodes.len(),
                    self.tree.anchor,
                    after.stable_height,
                    after.ingesting.is_some(),
                    short_resp(&after.resp),
                    short_pending(&self.pending),
                    self.now
                );
            }
            if progressed {
                idle_rounds = 0;
            } else {
                idle_rounds += 1;
            }
            // idle: several heartbeats in a row that fetched nothing new and changed nothing
            if idle_rounds >= 4 {
                break;
            }
        }
        // Every valid block reachable from the anchor through valid blocks must be in the tree.
        let missing = self.reachable_valid_blocks_missing();
        if !missing.is_empty() {
            return Err(violation(
                "C13",
                "valid-block-never-applied",
                format!("after quiescence valid offered blocks {:?} are not part of the canister's view", missing),
            ));
        }
        if self.is_active("C03") {
            self.check_stable_records(true)?;
        }
        self.stats.probe("quiesced");
        Ok(())
    }

    /// Valid blocks the honest adapter would offer (descendants of model-tree blocks through
    /// valid blocks) that the model tree lacks.
    pub fn reachable_valid_blocks_missing(&self) -> Vec<usize> {
        let mut missing = vec![];
        let mut stack: Vec<usize> = self.tree.nodes.keys().copied().collect();
        let mut seen: BTreeSet<usize> = stack.iter().copied().collect();
        while let Some(x) = stack.pop() {
            for c in self.net.children_of(x) {
                if seen.contains(&c) {
                    continue;
                }
                seen.insert(c);
                if !self.block_valid_now(c) {
                    continue;
                }
                if !self.tree.contains(c) {
                    missing.push(c);
                }
                stack.push(c);
            }
        }
        missing
    }
}

pub fn short_resp(r: &RespKind) -> String {
    match r {
        RespKind::None => "None".into(),
        RespKind::Partial { bytes, pages_done, remaining } => {
            format!("Partial({} bytes, {} of {} follow-ups)", bytes.len(), pages_done, remaining)
        }
        RespKind::Complete { blocks, next } => format!(
            "Complete({} blocks [{}], {} next)",
            blocks.len(),
            blocks.iter().map(|b| b.len().to_string()).collect::<Vec<_>>().join(","),
            next.len()
        ),
    }
}

pub fn short_pending(p: &ModelPending) -> String {
    match p {
        ModelPending::None => "None".into(),
        ModelPending::Partial { bytes, done, total, .. } => {
            format!("Partial({} bytes, {} of {} follow-ups)", bytes.len(), done, total)
        }
        ModelPending::Complete(r) => format!(
            "Complete({} blocks [{}], {} next)",
            r.blocks.len(),
            r.blocks.iter().map(|b| b.len().to_string()).collect::<Vec<_>>().join(","),
            r.next.len()
        ),
    }
}
