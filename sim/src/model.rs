//! Reference model: a small, independent, executable description of what the canister
//! must show. Written from the property statements and the Bitcoin rules; it never calls the
//! code under test. Shares with it only rust-bitcoin's (de)serialisation, hashing and address
//! encoding (named as trusted base in the evidence).

use std::collections::{BTreeMap, BTreeSet};
use std::rc::Rc;

pub type Hash32 = [u8; 32];

#[derive(Clone, Debug, PartialEq, Eq, PartialOrd, Ord, Hash)]
pub struct OutP {
    pub txid: Hash32,
    pub vout: u32,
}

#[derive(Clone, Debug, PartialEq, Eq)]
pub struct Coin {
    pub script: Rc<Vec<u8>>,
    pub value: u64,
    pub height: u32,
}

/// UTXO map of one chain (genesis ..= some block).
pub type Ledger = BTreeMap<OutP, Coin>;

/// Result of replaying one block on top of a ledger.
pub struct Applied {
    pub ledger: Ledger,
    /// (fee in satoshi, vsize) of every non-coinbase transaction in block order.
    pub fees: Vec<(u64, u64)>,
    /// For every outpoint: number of (input or output) occurrences in this block.
    pub refs: BTreeMap<OutP, u32>,
}

#[derive(Debug)]
pub enum ApplyError {
    MissingInput(OutP),
}

pub fn txid_of(tx: &bitcoin::Transaction) -> Hash32 {
    use bitcoin::hashes::Hash;
    tx.compute_txid().to_byte_array()
}

/// vsize = ceil((3*base + total)/4) from the serialised lengths.
pub fn vsize_of(tx: &bitcoin::Transaction) -> u64 {
    let total = bitcoin::consensus::serialize(tx).len() as u64;
    let base = {
        let mut stripped = tx.clone();
        for i in stripped.input.iter_mut() {
            i.witness = bitcoin::Witness::new();
        }
        bitcoin::consensus::serialize(&stripped).len() as u64
    };
    (3 * base + total + 3) / 4
}

/// Replays `block` (at `height`) on `parent`: spends inputs, creates outputs.
/// OP_RETURN outputs are provably unspendable and are not part of the UTXO set.
pub fn apply_block(
    parent: &Ledger,
    block: &bitcoin::Block,
    height: u32,
) -> Result<Applied, ApplyError> {
    let mut ledger = parent.clone();
    let mut fees = vec![];
    let mut refs: BTreeMap<OutP, u32> = BTreeMap::new();
    // Outputs created in this block that are OP_RETURN still need a value for fee computation.
    for tx in &block.txdata {
        let txid = txid_of(tx);
        let coinbase = tx.is_coinbase();
        let mut in_sum: u64 = 0;
        if !coinbase {
            for i in &tx.input {
                let op = OutP {
                    txid: {
                        use bitcoin::hashes::Hash;
                        i.previous_output.txid.to_byte_array()
                    },
                    vout: i.previous_output.vout,
                };
                let coin = ledger
                    .remove(&op)
                    .ok_or_else(|| ApplyError::MissingInput(op.clone()))?;
                in_sum += coin.value;
                *refs.entry(op).or_insert(0) += 1;
            }
        }
        let mut out_sum: u64 = 0;
        for (vout, o) in tx.output.iter().enumerate() {
            out_sum += o.value.to_sat();
            let op = OutP {
                txid,
                vout: vout as u32,
            };
            *refs.entry(op.clone()).or_insert(0) += 1;
            if !o.script_pubkey.is_op_return() {
                ledger.insert(
                    op,
                    Coin {
                        script: Rc::new(o.script_pubkey.to_bytes()),
                        value: o.value.to_sat(),
                        height,
                    },
                );
            }
        }
        if !coinbase {
            if let Some(fee) = in_sum.checked_sub(out_sum) {
                fees.push((fee, vsize_of(tx)));
            }
        }
    }
    Ok(Applied { ledger, fees, refs })
}

/// Nearest-rank percentiles 0..=100 (index 0 = minimum) of millisatoshi/vbyte fee rates.
pub fn fee_percentiles(rates: &[u64]) -> Vec<u64> {
    if rates.is_empty() {
        return vec![];
    }
    let mut v = rates.to_vec();
    v.sort();
    let n = v.len() as u64;
    (0..=100u64)
        .map(|p| {
            // smallest rank r (1-based) with r >= p/100 * n ; p = 0 -> minimum.
            let r = (p * n + 99) / 100;
            let idx = if r == 0 { 0 } else { r - 1 };
            v[idx as usize]
        })
        .collect()
}

pub fn fee_rate(fee: u64, vsize: u64) -> u64 {
    1000 * fee / vsize
}

// ---------------------------------------------------------------------------------------
// Fork tree

#[derive(Clone, Debug)]
pub struct TreeNode {
    pub id: usize,
    pub parent: Option<usize>,
    pub children: Vec<usize>, // arrival order
    pub difficulty: u128,
    pub height: u32,
    pub arrival: u64,
}

/// The blocks the model says the canister holds above (and including) the anchor.
#[derive(Clone, Debug, Default)]
pub struct RefTree {
    pub nodes: BTreeMap<usize, TreeNode>,
    pub anchor: usize,
    pub arrivals: u64,
}

impl RefTree {
    pub fn new(anchor: usize, difficulty: u128, height: u32) -> Self {
        let mut nodes = BTreeMap::new();
        nodes.insert(
            anchor,
            TreeNode {
                id: anchor,
                parent: None,
                children: vec![],
                difficulty,
                height,
                arrival: 0,
            },
        );
        RefTree {
            nodes,
            anchor,
            arrivals: 1,
        }
    }

    pub fn contains(&self, id: usize) -> bool {
        self.nodes.contains_key(&id)
    }

    pub fn insert(&mut self, id: usize, parent: usize, difficulty: u128) {
        let height = self.nodes[&parent].height + 1;
        let arrival = self.arrivals;
        self.arrivals += 1;
        self.nodes.get_mut(&parent).unwrap().children.push(id);
        self.nodes.insert(
            id,
            TreeNode {
                id,
                parent: Some(parent),
                children: vec![],
                difficulty,
                height,
                arrival,
            },
        );
    }

    pub fn ids(&self) -> BTreeSet<usize> {
        self.nodes.keys().copied().collect()
    }

    pub fn leaves(&self) -> Vec<usize> {
        self.nodes
            .values()
            .filter(|n| n.children.is_empty())
            .map(|n| n.id)
            .collect()
    }

    /// Path anchor ..= id.
    pub fn path_to(&self, id: usize) -> Vec<usize> {
        let mut p = vec![id];
        let mut cur = id;
        while let Some(par) = self.nodes[&cur].parent {
            p.push(par);
            cur = par;
        }
        p.reverse();
        p
    }

    /// All root-to-leaf paths below (and including) `root`: one per leaf of its subtree, built
    /// by walking parent links up from each leaf (no recursion, no caching).
    fn paths_from(&self, root: usize) -> Vec<Vec<usize>> {
        let mut out = vec![];
        for leaf in self.nodes.values().filter(|n| n.children.is_empty()) {
            let mut p = vec![leaf.id];
            let mut cur = leaf.id;
            let mut found = cur == root;
            while !found {
                match self.nodes[&cur].parent {
                    Some(par) => {
                        p.push(par);
                        cur = par;
                        found = cur == root;
                    }
                    None => break,
                }
            }
            if found {
                p.reverse();
                out.push(p);
            }
        }
        out
    }

    /// Best chain by brute force: among all anchor-to-leaf paths maximise
    /// (accumulated difficulty, number of blocks); remaining ties go to the branch received
    /// first at the point where the paths diverge.
    pub fn best_chain(&self) -> Vec<usize> {
        let paths = self.paths_from(self.anchor);
        let key = |p: &Vec<usize>| -> (u128, usize) {
            (
                p.iter().map(|i| self.nodes[i].difficulty).sum::<u128>(),
                p.len(),
            )
        };
        let mut best: Option<Vec<usize>> = None;
        for p in paths {
            best = Some(match best {
                None => p,
                Some(b) => {
                    let (kb, kp) = (key(&b), key(&p));
                    if kp > kb {
                        p
                    } else if kp < kb {
                        b
                    } else {
                        // tie: first divergence, earlier arrival wins
                        let mut i = 0;
                        while i < b.len() && i < p.len() && b[i] == p[i] {
                            i += 1;
                        }
                        if i >= b.len() || i >= p.len() {
                            b
                        } else if self.nodes[&p[i]].arrival < self.nodes[&b[i]].arrival {
                            p
                        } else {
                            b
                        }
                    }
                }
            });
        }
        best.unwrap()
    }

    /// Longest path (in blocks, `id` included) from `id` down to a leaf.
    pub fn depth(&self, id: usize) -> u32 {
        self.paths_from(id).iter().map(|p| p.len()).max().unwrap() as u32
    }

    /// Max accumulated difficulty of a path from `id` (included) to a leaf.
    pub fn diff_depth(&self, id: usize) -> u128 {
        self.paths_from(id)
            .iter()
            .map(|p| p.iter().map(|i| self.nodes[i].difficulty).sum::<u128>())
            .max()
            .unwrap()
    }

    pub fn subtree(&self, id: usize) -> Vec<usize> {
        let mut out = vec![];
        let mut stack = vec![id];
        while let Some(x) = stack.pop() {
            out.push(x);
            for c in &self.nodes[&x].children {
                stack.push(*c);
            }
        }
        out
    }

    /// Re-roots the tree at `child` (a child of the anchor); returns the ids discarded
    /// (old anchor + losing subtrees).
    pub fn advance_to(&mut self, child: usize) -> Vec<usize> {
        let keep: BTreeSet<usize> = self.subtree(child).into_iter().collect();
        let gone: Vec<usize> = self
            .nodes
            .keys()
            .copied()
            .filter(|i| !keep.contains(i))
            .collect();
        for g in &gone {
            self.nodes.remove(g);
        }
        self.nodes.get_mut(&child).unwrap().parent = None;
        self.anchor = child;
        gone
    }

    /// Blocks at the same height as `id` (other than `id`).
    pub fn same_height_others(&self, id: usize) -> Vec<usize> {
        let h = self.nodes[&id].height;
        self.nodes
            .values()
            .filter(|n| n.height == h && n.id != id)
            .map(|n| n.id)
            .collect()
    }
}

/// Verdict of the stability rule on a snapshot of the tree.
#[derive(Clone, Debug, PartialEq, Eq)]
pub struct StabilityVerdict {
    /// Children the anchor is allowed to advance to (usually 0 or 1 element).
    pub allowed: Vec<usize>,
    /// A child the anchor must advance to at the next opportunity, if any.
    pub required: Option<usize>,
}

/// Documented adaptive depth bound for testnet/regtest; both roundings of .5 are returned.
pub fn testnet_depth_bound(total_unstable: usize, threshold: u32) -> (u64, u64) {
    let max = 500u64;
    let min = (threshold as u64).min(max - 1);
    if total_unstable >= 1500 {
        return (min, min);
    }
    // exact value: max - n/1500 * (max - min) = (max*1500 - n*(max-min)) / 1500
    let num = max * 1500 - total_unstable as u64 * (max - min);
    let q = num / 1500;
    let r = num % 1500;
    if r * 2 < 1500 {
        (q, q)
    } else if r * 2 > 1500 {
        (q + 1, q + 1)
    } else {
        (q, q + 1)
    }
}

/// The rule of C03 evaluated on a tree snapshot.
pub fn stability_verdict(tree: &RefTree, threshold: u32, testnet_like: bool) -> StabilityVerdict {
    let anchor = &tree.nodes[&tree.anchor];
    let children = anchor.children.clone();
    if children.is_empty() {
        return StabilityVerdict {
            allowed: vec![],
            required: None,
        };
    }
    let t = threshold as u128 * anchor.difficulty;
    let d: Vec<(usize, u128)> = children.iter().map(|c| (*c, tree.diff_depth(*c))).collect();
    let mut allowed = vec![];
    let mut required = None;
    // Difficulty rule.
    for (c, dc) in &d {
        if *dc >= t
            && d.iter()
                .filter(|(y, _)| y != c)
                .all(|(_, dy)| *dc >= *dy && *dc - *dy >= t)
        {
            allowed.push(*c);
            required = Some(*c);
        }
    }
    if testnet_like {
        // Depth escape: the heaviest child (by accumulated difficulty) is looked at; on exact
        // ties of the heaviest two the statement does not say which one, so either is allowed
        // and none is required.
        let maxd = d.iter().map(|(_, x)| *x).max().unwrap();
        let heaviest: Vec<usize> = d.iter().filter(|(_, x)| *x == maxd).map(|(c, _)| *c).collect();
        let (b_lo, b_hi) = testnet_depth_bound(tree.nodes.len(), threshold);
        for c in &heaviest {
            let len_c = tree.depth(*c) as u64;
            // runner-up: ranked second by difficulty; with ties among the heaviest the other
            // heaviest is the runner-up.
            let mut others: Vec<(usize, u128)> = d.iter().filter(|(y, _)| y != c).cloned().collect();
            others.sort_by_key(|(_, x)| *x);
            // candidates for "runner-up": all others having the maximal difficulty among others
            let run_len: Vec<u64> = match others.last() {
                None => vec![0],
                Some((_, top)) => others
                    .iter()
                    .filter(|(_, x)| x == top)
                    .map(|(y, _)| tree.depth(*y) as u64)
                    .collect(),
            };
            // allowed if it holds for some admissible reading (rounding, runner-up tie)
            let ok_some = run_len.iter().any(|r| {
                [b_lo, b_hi]
                    .iter()
                    .any(|b| len_c >= *b && len_c.saturating_sub(*r) >= *b)
            });
            let ok_all = run_len.iter().all(|r| {
                [b_lo, b_hi]
                    .iter()
                    .all(|b| len_c >= *b && len_c.saturating_sub(*r) >= *b)
            });
            if ok_some && !allowed.contains(c) {
                allowed.push(*c);
            }
            if ok_all && heaviest.len() == 1 && required.is_none() {
                required = Some(*c);
            }
        }
    }
    StabilityVerdict { allowed, required }
}
