//! Simulated client canisters: stateful requests (pagination sessions), paid update calls,
//! send_transaction, gate probes, fee-percentile requests — with their oracles
//! (C06, C14, C15, C16, C19).

use crate::canister::{self, Trap};
use crate::gen::Swarm;
use crate::model::{self, Hash32};
use crate::rng::Rng;
use crate::sim::*;
use crate::trace::*;
use crate::views::{to_u, U};
use ic_btc_interface::*;
use serde_bytes::ByteBuf;

pub fn draw_client_op(sw: &Swarm, w: &World, rng: &mut Rng) -> ClientOp {
    let n_addr = w.net.wallet.addresses().len();
    match rng.weighted(&sw.client_mix) {
        0 => ClientOp::OpenSession {
            session: w.sessions.len(),
            addr: richest_address(w, rng),
            limit: *rng.pick(&[1usize, 2, 3, 7, 50, 100, 200, 200, 0]),
            min_conf: draw_min_conf(w, rng),
        },
        1 => {
            let open: Vec<usize> = w.sessions.iter().filter(|(_, s)| !s.done).map(|(k, _)| *k).collect();
            if open.is_empty() {
                ClientOp::OpenSession {
                    session: w.sessions.len(),
                    addr: richest_address(w, rng),
                    limit: *rng.pick(&[1usize, 2, 3, 7, 50, 100, 200]),
                    min_conf: draw_min_conf(w, rng),
                }
            } else {
                ClientOp::NextPage { session: *rng.pick(&open) }
            }
        }
        2 => {
            let from: Vec<usize> = w.sessions.iter().filter(|(_, s)| s.next_page.is_some()).map(|(k, _)| *k).collect();
            let from_session = if !from.is_empty() && rng.chance(1, 2) { Some(*rng.pick(&from)) } else { None };
            ClientOp::RawPage {
                addr: rng.usize_below(n_addr),
                seed: rng.next_u64(),
                len: *rng.pick(&[0u8, 1, 35, 71, 72, 72, 72, 73, 200]),
                from_session,
                flip: if from_session.is_some() { Some(rng.below(72) as u8) } else { None },
            }
        }
        3 => ClientOp::FeePercentiles,
        4 => ClientOp::Paid {
            endpoint: rng.below(9) as u8,
            addr: rng.usize_below(n_addr + w.net.wallet.bad_addresses.len()),
            cycles: rng.below(7) as u8,
            counter: *rng.pick(&[0u64, 5, 10, 999, 1_000_000, 10_000_000_000, 40_000_000_000]),
            arg: rng.below(1000) as u32,
        },
        5 if rng.chance(1, 3) => ClientOp::SendTx {
            // a small pool of transactions: the same payload again, or the same transaction
            // with another witness (same txid, other bytes), right after it was forwarded
            seed: rng.below(3),
            kind: *rng.pick(&[0u8, 1, 1, 10, 10]),
            net: 0,
            reject: false,
        },
        5 => ClientOp::SendTx {
            seed: rng.next_u64(),
            kind: rng.below(11) as u8,
            net: *rng.pick(&[0u8, 0, 0, 0, 1, 2]),
            reject: rng.chance(1, 12),
        },
        _ => ClientOp::Gate {
            endpoint: rng.below(7) as u8,
            net: *rng.pick(&[0u8, 0, 1, 2]),
        },
    }
}

fn draw_min_conf(w: &World, rng: &mut Rng) -> Option<u32> {
    if rng.chance(1, 3) {
        let len = w.best_chain().len() as u32;
        Some(rng.range(1, len.max(1) as u64) as u32)
    } else {
        None
    }
}

fn richest_address(w: &World, rng: &mut Rng) -> usize {
    // prefer an address that owns many outputs at the best tip
    let tip = w.best_tip();
    let addrs = w.net.wallet.addresses();
    let mut best = (0usize, 0usize);
    for (i, a) in addrs.iter().enumerate() {
        let n = w.expected_utxos(tip, a).len();
        if n > best.1 {
            best = (i, n);
        }
    }
    if best.1 > 1 && rng.chance(3, 4) {
        best.0
    } else {
        rng.usize_below(addrs.len())
    }
}

fn other_network(own: Network, k: u8) -> Network {
    let all = [Network::Mainnet, Network::Testnet, Network::Regtest];
    let others: Vec<Network> = all.iter().copied().filter(|n| *n != own).collect();
    match k {
        0 => own,
        1 => others[0],
        _ => others[1],
    }
}

impl World {
    pub fn run_client(&mut self, op: &ClientOp) -> Result<bool, Violation> {
        match op {
            ClientOp::OpenSession { session, addr, limit, min_conf } => self.open_session(*session, *addr, *limit, *min_conf),
            ClientOp::NextPage { session } => self.next_page(*session),
            ClientOp::RawPage { addr, seed, len, from_session, flip } => self.raw_page(*addr, *seed, *len, *from_session, *flip),
            ClientOp::FeePercentiles => self.fee_request(),
            ClientOp::Paid { endpoint, addr, cycles, counter, arg } => self.paid_call(*endpoint, *addr, *cycles, *counter, *arg),
            ClientOp::SendTx { seed, kind, net, reject } => self.send_tx(*seed, *kind, *net, *reject),
            ClientOp::Gate { endpoint, net } => self.gate_probe(*endpoint, *net),
        }
    }

    // ------------------------------------------------------------------ C06
    fn page_call(&self, addr: &str, filter: Option<UtxosFilterInRequest>, limit: usize) -> canister::UtxosResult {
        if limit == 0 {
            canister::get_utxos_query(addr, self.network, filter)
        } else {
            canister::get_utxos_limit(addr, self.network, filter, limit)
        }
    }

    fn open_session(&mut self, session: usize, addr: usize, limit: usize, min_conf: Option<u32>) -> Result<bool, Violation> {
        if !self.data_gate_open() || self.sessions.contains_key(&session) {
            return Ok(false);
        }
        let addrs = self.net.wallet.addresses();
        let a = addrs[addr % addrs.len()].clone();
        let first_filter = min_conf.map(UtxosFilterInRequest::MinConfirmations);
        if min_conf.is_some() {
            self.stats.probe("session_with_min_confirmations");
        }
        let r = self.page_call(&a, first_filter, limit).map_err(|t| violation("C06", "first-page-trap", t.0))?;
        let resp = match r {
            Ok(r) => r,
            Err(GetUtxosError::MinConfirmationsTooLarge { .. }) if min_conf.is_some() => return Ok(true),
            Err(e) => return Err(violation("C06", "first-page-error", format!("{e:?}"))),
        };
        let mut tip = [0u8; 32];
        if resp.tip_block_hash.len() == 32 {
            tip.copy_from_slice(&resp.tip_block_hash);
        }
        let s = Session {
            addr: addr % addrs.len(),
            limit,
            tip,
            tip_height: resp.tip_height,
            collected: resp.utxos.iter().map(to_u).collect(),
            next_page: resp.next_page.as_ref().map(|p| p.to_vec()),
            pages: 1,
            interleaved: 0,
            done: resp.next_page.is_none(),
        };
        let done = s.done;
        self.sessions.insert(session, s);
        if done {
            self.finish_session(session)?;
        }
        Ok(true)
    }

    fn next_page(&mut self, session: usize) -> Result<bool, Violation> {
        if !self.data_gate_open() {
            return Ok(false);
        }
        let Some(s) = self.sessions.get(&session) else {
            return Ok(false);
        };
        if s.done {
            return Ok(false);
        }
        let token = s.next_page.clone().unwrap();
        let limit = s.limit;
        let tip = s.tip;
        let tip_height = s.tip_height;
        let a = self.net.wallet.addresses()[s.addr].clone();
        let tip_id = self.id_of(&tip);
        let tip_available = tip_id.map(|i| self.tree.contains(i)).unwrap_or(false);
        self.stats.oracle_comparisons += 1;
        let r = self
            .page_call(&a, Some(UtxosFilterInRequest::Page(ByteBuf::from(token))), limit)
            .map_err(|t| violation("C06", "page-request-trap", format!("a follow-up page request trapped: {}", t.0)))?;
        let eff = if limit == 0 { 1000 } else { limit };
        match r {
            Ok(resp) => {
                if !tip_available {
                    return Err(violation(
                        "C06",
                        "page-served-for-gone-tip",
                        format!("session tip {:?} is no longer unstable but the page request was answered", tip_id),
                    ));
                }
                if resp.tip_block_hash != tip.to_vec() || resp.tip_height != tip_height {
                    let mut h = [0u8; 32];
                    if resp.tip_block_hash.len() == 32 {
                        h.copy_from_slice(&resp.tip_block_hash);
                    }
                    return Err(violation(
                        "C06",
                        "page-names-other-tip",
                        format!(
                            "follow-up page names tip {:?} (height {}), the session's first page named #{:?} (height {tip_height})",
                            self.id_of(&h),
                            resp.tip_height,
                            tip_id
                        ),
                    ));
                }
                if resp.utxos.len() > eff {
                    return Err(violation("C06", "page-too-long", format!("{} elements with limit {eff}", resp.utxos.len())));
                }
                let s = self.sessions.get_mut(&session).unwrap();
                s.collected.extend(resp.utxos.iter().map(to_u));
                s.pages += 1;
                s.next_page = resp.next_page.as_ref().map(|p| p.to_vec());
                if s.next_page.is_none() {
                    s.done = true;
                    self.finish_session(session)?;
                }
            }
            Err(GetUtxosError::UnknownTipBlockHash { .. }) => {
                if tip_available {
                    return Err(violation(
                        "C06",
                        "tip-available-but-refused",
                        format!("session tip #{:?} is still unstable but the page request failed with UnknownTipBlockHash", tip_id),
                    ));
                }
                self.stats.probe("page_token_invalidated");
                self.sessions.get_mut(&session).unwrap().done = true;
            }
            Err(e) => {
                return Err(violation("C06", "page-request-error", format!("follow-up page failed with {e:?}")));
            }
        }
        Ok(true)
    }

    fn finish_session(&mut self, session: usize) -> Check {
        let s = &self.sessions[&session];
        let Some(tip_id) = self.id_of(&s.tip) else {
            return Err(violation("C06", "unknown-tip-named", "first page named an unknown tip".into()));
        };
        let a = self.net.wallet.addresses()[s.addr].clone();
        let expected = self.expected_utxos(tip_id, &a);
        let mut got: Vec<U> = s.collected.clone();
        for w in got.windows(2) {
            if w[0].3 < w[1].3 {
                return Err(violation("C06", "not-descending-height", format!("heights {} then {}", w[0].3, w[1].3)));
            }
        }
        got.sort_by(|a, b| b.3.cmp(&a.3).then(a.0.cmp(&b.0)).then(a.1.cmp(&b.1)));
        let pages = s.pages;
        let inter = s.interleaved;
        if got != expected {
            let missing = expected.iter().filter(|e| !got.contains(e)).count();
            let extra = got.iter().filter(|e| !expected.contains(e)).count();
            let dup = got.windows(2).any(|w| w[0] == w[1]);
            return Err(violation(
                "C06",
                if dup { "session-element-duplicated" } else if missing > 0 { "session-element-missing" } else { "session-element-extra" },
                format!(
                    "session of {pages} pages on {a} at tip #{tip_id} with {inter} interleaved state changes: {} collected, {} expected, {missing} missing, {extra} extra",
                    got.len(),
                    expected.len()
                ),
            ));
        }
        if pages >= 2 {
            self.stats.probe("session_multi_page_completed");
            if inter >= 1 {
                self.stats.probe("session_interleaved_completed");
            }
        }
        Ok(())
    }

    fn raw_page(&mut self, addr: usize, seed: u64, len: u8, from_session: Option<usize>, flip: Option<u8>) -> Result<bool, Violation> {
        if !self.data_gate_open() {
            return Ok(false);
        }
        let addrs = self.net.wallet.addresses();
        let a = addrs[addr % addrs.len()].clone();
        let mut bytes = match from_session.and_then(|s| self.sessions.get(&s)).and_then(|s| s.next_page.clone()) {
            Some(b) => b,
            None => Rng::new(seed).bytes(len as usize),
        };
        if let Some(f) = flip {
            if !bytes.is_empty() {
                let i = f as usize % bytes.len();
                bytes[i] ^= 1 << (seed % 8);
            }
        }
        self.stats.oracle_comparisons += 1;
        let r = canister::get_utxos_query(&a, self.network, Some(UtxosFilterInRequest::Page(ByteBuf::from(bytes.clone()))));
        match r {
            Err(Trap(msg)) => Err(violation(
                "C06",
                "page-bytes-trap",
                format!("get_utxos with a {}-byte page blob trapped: {msg}", bytes.len()),
            )),
            Ok(Ok(resp)) => {
                // an answer must still be a consistent page of some known tip
                let mut h = [0u8; 32];
                if resp.tip_block_hash.len() == 32 {
                    h.copy_from_slice(&resp.tip_block_hash);
                }
                if self.id_of(&h).is_none() {
                    return Err(violation("C06", "unknown-tip-named", "answer to an arbitrary page names an unknown tip".into()));
                }
                self.stats.probe("arbitrary_page_answered");
                Ok(true)
            }
            Ok(Err(_)) => {
                self.stats.probe("arbitrary_page_error");
                Ok(true)
            }
        }
    }

    // ------------------------------------------------------------------ C15
    pub fn model_fee_window(&self, tip: usize) -> Vec<u64> {
        let path = self.tree.path_to(tip);
        let mut rates = vec![];
        'outer: for b in path.iter().rev() {
            for (fee, vs) in &self.block(*b).fees {
                if rates.len() >= 10_000 {
                    break 'outer;
                }
                rates.push(model::fee_rate(*fee, *vs));
            }
        }
        rates
    }

    /// Records the percentiles a heartbeat could have cached for the current (tip, anchor).
    pub fn note_fee_candidate(&mut self) {
        let tip = self.best_tip();
        let w = self.model_fee_window(tip);
        if !w.is_empty() {
            let p = model::fee_percentiles(&w);
            if !self.fee_candidates.contains(&(tip, p.clone())) {
                self.fee_candidates.push((tip, p));
            }
            if w.len() >= 10_000 {
                self.stats.probe("fee_window_10000_cut");
            }
        }
    }

    fn fee_request(&mut self) -> Result<bool, Violation> {
        Ok(self.fee_request_values()?.is_some())
    }

    /// A fee-percentile request (a state-changing observation in lazy mode) with its oracle.
    pub fn fee_request_values(&mut self) -> Result<Option<Vec<u64>>, Violation> {
        if !self.data_gate_open() {
            return Ok(None);
        }
        self.stats.oracle_comparisons += 1;
        let r = canister::get_fee_percentiles(self.network).map_err(|t| violation("C15", "fee-percentiles-trap", t.0))?;
        let r2 = canister::get_fee_percentiles(self.network).map_err(|t| violation("C15", "fee-percentiles-trap", t.0))?;
        if r != r2 {
            return Err(violation("C15", "answer-changed-without-event", "two consecutive requests gave different answers".into()));
        }
        if !(r.is_empty() || r.len() == 101) {
            return Err(violation("C15", "wrong-length", format!("{} values", r.len())));
        }
        if r.windows(2).any(|w| w[0] > w[1]) {
            return Err(violation("C15", "not-monotone", "percentiles decrease".into()));
        }
        let tip = self.best_tip();
        let window = self.model_fee_window(tip);
        let exact_lazy = self.fee_exact();
        if exact_lazy {
            // lazy since init: observations are exactly the requests
            let expected = match &self.fee_cache {
                Some((t, v)) if *t == tip => v.clone(),
                _ => {
                    if window.is_empty() {
                        self.stats.probe("fee_window_empty_previous_kept");
                        self.fee_cache.as_ref().map(|(_, v)| v.clone()).unwrap_or_default()
                    } else {
                        let v = model::fee_percentiles(&window);
                        self.fee_cache = Some((tip, v.clone()));
                        v
                    }
                }
            };
            if r != expected {
                return Err(violation(
                    "C15",
                    "fee-percentiles-wrong",
                    format!(
                        "lazy mode, best tip #{tip}, window of {} transactions: got (min {:?}, median {:?}, max {:?}, len {}), expected (min {:?}, median {:?}, max {:?}, len {})",
                        window.len(),
                        r.first(),
                        r.get(50),
                        r.last(),
                        r.len(),
                        expected.first(),
                        expected.get(50),
                        expected.last(),
                        expected.len()
                    ),
                ));
            }
        } else {
            self.note_fee_candidate();
            if let Some((t, v)) = &self.eager_expected {
                if *t == tip && !self.lazy_fees {
                    self.stats.probe("eager_exact_compared");
                    if r != *v {
                        return Err(violation(
                            "C15",
                            "fee-percentiles-wrong",
                            format!(
                                "eager mode, best tip #{tip}: the percentiles were not computed (and kept) when this tip was first observed: got (min {:?}, median {:?}, max {:?}, len {}), the message that made it the best tip had to cache (min {:?}, median {:?}, max {:?})",
                                r.first(), r.get(50), r.last(), r.len(), v.first(), v.get(50), v.last()
                            ),
                        ));
                    }
                }
            }
            let ok = if window.is_empty() {
                // nothing to report for this tip: nothing, or a previous answer
                r.is_empty() || self.fee_candidates.iter().any(|(_, v)| *v == r)
            } else {
                // the window of *this* tip, for some anchor position during its time as best tip
                // (the cache is kept until the tip changes, so the anchor may have moved on)
                self.fee_candidates.iter().any(|(t, v)| *t == tip && *v == r)
            };
            if !ok {
                return Err(violation(
                    "C15",
                    "fee-percentiles-wrong",
                    format!(
                        "eager mode, best tip #{tip}, window of {} transactions: answer (min {:?}, max {:?}, len {}) matches no window ever served",
                        window.len(),
                        r.first(),
                        r.last(),
                        r.len()
                    ),
                ));
            }
        }
        if !window.is_empty() {
            self.stats.probe("fee_window_nonempty");
        }
        self.last_fee_answer = Some(r.clone());
        Ok(Some(r))
    }

    pub fn fee_exact(&self) -> bool {
        self.cfg.lazy_fees && self.lazy_fees && !self.stats.probes.contains_key("lazy_flag_flipped")
    }

    // ------------------------------------------------------------------ C16
    fn paid_call(&mut self, endpoint: u8, addr: usize, cycles_class: u8, counter: u64, arg: u32) -> Result<bool, Violation> {
        let net = self.network;
        let mut all_addrs = self.net.wallet.addresses();
        let n_good = all_addrs.len();
        all_addrs.extend(self.net.wallet.bad_addresses.iter().cloned());
        let a = all_addrs[addr % all_addrs.len()].clone();
        let bad_addr = addr % all_addrs.len() >= n_good;
        let f = self.fees.clone();
        let tip = self.anchor_height() + self.best_chain().len() as u32 - 1;
        let best_len = self.best_chain().len() as u32;
        // endpoint table
        // 0 get_utxos, 1 get_balance, 2 get_block_headers, 3 fee percentiles, 4 send_transaction,
        // 5 get_utxos_query, 6 get_balance_query, 7 get_utxos with bad page, 8 get_block_headers bad range
        let tx_payload: Vec<u8> = if arg % 3 == 0 { Rng::new(arg as u64).bytes((arg % 90) as usize) } else { self.sample_tx(arg as u64, arg as u8 % 4) };
        let (maximum, cdk_cost): (u128, u128) = match endpoint {
            0 | 7 => (
                f.get_utxos_maximum,
                ic_cdk_bitcoin_canister::cost_get_utxos(&GetUtxosRequest {
                    address: a.clone(),
                    network: canister::net_in_request(net),
                    filter: None,
                }),
            ),
            1 => (
                f.get_balance_maximum,
                ic_cdk_bitcoin_canister::cost_get_balance(&GetBalanceRequest {
                    address: a.clone(),
                    network: canister::net_in_request(net),
                    min_confirmations: None,
                }),
            ),
            2 | 8 => (
                f.get_block_headers_maximum,
                ic_cdk_bitcoin_canister::cost_get_block_headers(&GetBlockHeadersRequest {
                    start_height: 0,
                    end_height: None,
                    network: canister::net_in_request(net),
                }),
            ),
            3 => (
                f.get_current_fee_percentiles_maximum,
                ic_cdk_bitcoin_canister::cost_get_current_fee_percentiles(&GetCurrentFeePercentilesRequest {
                    network: canister::net_in_request(net),
                }),
            ),
            4 => {
                let amount = f.send_transaction_base + f.send_transaction_per_byte * tx_payload.len() as u128;
                (
                    amount,
                    ic_cdk_bitcoin_canister::cost_send_transaction(&SendTransactionRequest {
                        transaction: tx_payload.clone(),
                        network: canister::net_in_request(net),
                    }),
                )
            }
            _ => (0, 0),
        };
        let attached: u128 = match cycles_class {
            0 => 0,
            1 => maximum.saturating_sub(1),
            2 => maximum,
            3 => maximum + 1,
            4 => u128::MAX / 4,
            5 => cdk_cost,
            _ => maximum / 2,
        };
        // The client library's amount must cover the canister's default maximum for the same
        // network and endpoint (checked against the default fee tables only).
        if !self.fees_explicit && maximum > 0 && matches!(endpoint, 0 | 1 | 2 | 3 | 4) {
            self.stats.oracle_comparisons += 1;
            if cdk_cost < maximum {
                return Err(violation(
                    "C16",
                    "client-cost-below-maximum",
                    format!("endpoint {endpoint} on {}: ic-cdk-bitcoin-canister attaches {cdk_cost} cycles, the canister's default maximum is {maximum}", self.network),
                ));
            }
        }
        // ... in either spelling of the network (`mainnet` / `Mainnet`)
        if !self.fees_explicit && maximum > 0 && matches!(endpoint, 0 | 1 | 2 | 3) {
            for spelled in canister::net_in_request_spellings(net) {
                let c = match endpoint {
                    0 => ic_cdk_bitcoin_canister::cost_get_utxos(&GetUtxosRequest { address: a.clone(), network: spelled, filter: None }),
                    1 => ic_cdk_bitcoin_canister::cost_get_balance(&GetBalanceRequest { address: a.clone(), network: spelled, min_confirmations: None }),
                    2 => ic_cdk_bitcoin_canister::cost_get_block_headers(&GetBlockHeadersRequest { start_height: 0, end_height: None, network: spelled }),
                    _ => ic_cdk_bitcoin_canister::cost_get_current_fee_percentiles(&GetCurrentFeePercentilesRequest { network: spelled }),
                };
                self.stats.oracle_comparisons += 1;
                if c < maximum {
                    return Err(violation(
                        "C16",
                        "client-cost-below-maximum",
                        format!("endpoint {endpoint} on {} (request network spelled {:?}): ic-cdk-bitcoin-canister attaches {c} cycles, the canister's default maximum is {maximum}", self.network, spelled),
                    ));
                }
            }
        }
        let is_query = matches!(endpoint, 5 | 6);
        let gate_open = if endpoint == 4 { self.api_access } else { self.data_gate_open() };
        canister::set_attached_cycles(Some(attached));
        canister::begin_client_message(counter, self.now);
        let before_acc = canister::cycles_accepted();
        let digest_before = self.state_digest();
        self.stats.oracle_comparisons += 1;
        // outcome: Ok(true) success, Ok(false) request-level error, Err trap
        let outcome: Result<bool, Trap> = match endpoint {
            0 => canister::get_utxos_update(&a, net, if arg % 4 == 1 { Some(UtxosFilterInRequest::MinConfirmations(arg % (best_len + 3))) } else { None }).map(|r| r.is_ok()),
            1 => canister::get_balance_update(&a, net, if arg % 4 == 1 { Some(arg % (best_len + 3)) } else { None }).map(|r| r.is_ok()),
            2 => {
                let start = arg % (tip + 1);
                let end = match arg % 3 {
                    0 => None,
                    1 => Some((start + arg % 5).min(tip)),
                    // entirely below the stable height when possible
                    _ => Some((start + arg % 3).min(self.anchor_height().saturating_sub(1)).max(start).min(tip)),
                };
                if end.map(|e| e < self.anchor_height()).unwrap_or(false) {
                    self.stats.probe("paid_headers_range_entirely_stable");
                }
                canister::get_block_headers(start, end, net).map(|r| r.is_ok())
            }
            3 => canister::get_fee_percentiles(net).map(|_| true),
            4 => canister::send_transaction(tx_payload.clone(), net).map(|r| r.is_ok()),
            5 => canister::get_utxos_query(&a, net, None).map(|r| r.is_ok()),
            6 => canister::get_balance_query(&a, net, None).map(|r| r.is_ok()),
            7 => canister::get_utxos_update(&a, net, Some(UtxosFilterInRequest::Page(ByteBuf::from(Rng::new(arg as u64).bytes((arg % 80) as usize))))).map(|r| r.is_ok()),
            _ => canister::get_block_headers(tip + 1 + arg % 3, None, net).map(|r| r.is_ok()),
        };
        let accepted = canister::cycles_accepted() - before_acc;
        canister::set_attached_cycles(None);
        canister::begin_client_message(0, self.now);
        if endpoint == 4 {
            let fwd = canister::take_send_tx_log();
            if !fwd.is_empty() {
                self.send_tx_count += 1;
            }
        }
        let desc = format!(
            "endpoint {endpoint} address {a:?} attached {attached} counter {counter} (maximum {maximum}, fees {:?})",
            self.fees
        );
        if !gate_open {
            return match outcome {
                Err(_) if accepted == 0 => Ok(true),
                Err(_) => Err(violation("C16", "charged-on-refusal", format!("{desc}: refused by the gate but {accepted} cycles were accepted"))),
                Ok(_) => Ok(true), // C14's business
            };
        }
        if is_query {
            if accepted != 0 {
                return Err(violation("C16", "query-charged", format!("{desc}: a query variant accepted {accepted} cycles")));
            }
            return Ok(true);
        }
        if attached < maximum {
            self.stats.probe("paid_below_maximum");
            return match outcome {
                Err(_) => {
                    if accepted != 0 {
                        return Err(violation("C16", "charged-on-refusal", format!("{desc}: refused but {accepted} cycles were accepted")));
                    }
                    if self.state_digest() != digest_before {
                        return Err(violation("C16", "effect-on-refusal", format!("{desc}: refused call changed the state")));
                    }
                    Ok(true)
                }
                Ok(_) => Err(violation("C16", "underpaid-call-served", format!("{desc}: served although less than the maximum was attached (accepted {accepted})"))),
            };
        }
        if cycles_class == 5 && !self.fees_explicit {
            self.stats.probe("paid_with_cdk_cost_default_fees");
        }
        let ok = match outcome {
            Ok(ok) => ok,
            Err(t) => {
                if endpoint == 4 {
                    // the internal call may have been rejected (traps by design)
                    return Ok(true);
                }
                return Err(violation("C16", "paid-call-refused", format!("{desc}: refused although the maximum was attached: {}", t.0)));
            }
        };
        let expected: u128 = match endpoint {
            0 | 7 => {
                if ok {
                    f.get_utxos_base + ((counter / 10) as u128 * f.get_utxos_cycles_per_ten_instructions).min(f.get_utxos_maximum - f.get_utxos_base)
                } else {
                    f.get_utxos_base
                }
            }
            1 => f.get_balance,
            2 | 8 => {
                if ok {
                    f.get_block_headers_base
                        + ((counter / 10) as u128 * f.get_block_headers_cycles_per_ten_instructions)
                            .min(f.get_block_headers_maximum - f.get_block_headers_base)
                } else {
                    f.get_block_headers_base
                }
            }
            3 => f.get_current_fee_percentiles,
            _ => maximum,
        };
        if !ok {
            self.stats.probe("paid_request_level_error");
        }
        if ok && matches!(endpoint, 0 | 2) && (counter / 10) as u128 * f.get_utxos_cycles_per_ten_instructions >= f.get_utxos_maximum.saturating_sub(f.get_utxos_base) {
            self.stats.probe("paid_variable_part_capped");
        }
        let _ = bad_addr;
        if accepted != expected {
            return Err(violation(
                "C16",
                "wrong-amount-charged",
                format!("{desc}: outcome ok={ok}, accepted {accepted}, formula gives {expected}"),
            ));
        }
        if accepted > maximum {
            return Err(violation("C16", "charged-above-maximum", format!("{desc}: accepted {accepted}")));
        }
        Ok(true)
    }

    /// Digest of the canister's persistent state minus profiling metrics (for "no effect").
    pub fn state_digest(&self) -> u64 {
        let mut f = crate::rng::Fnv::default();
        let o = observe();
        f.write_str(&format!("{:?}", o));
        ic_btc_canister::with_state(|s| {
            f.write_u64(s.metrics.send_transaction_count);
            f.write_str(&format!("{:?}{:?}{:?}", s.api_access, s.disable_api_if_not_fully_synced, s.fees));
            f.write_u64(s.utxos.utxos_len());
            f.write_u64(s.utxos.address_utxos_len());
            if let Some(c) = &s.fee_percentiles_cache {
                f.write(c.tip_block_hash.as_bytes());
            }
        });
        f.0
    }

    // ------------------------------------------------------------------ C19
    /// A transaction BtcNet could mine, serialised (kind selects legacy/segwit/odd shapes).
    pub fn sample_tx(&self, seed: u64, kind: u8) -> Vec<u8> {
        use bitcoin::absolute::LockTime;
        use bitcoin::hashes::Hash;
        use bitcoin::transaction::Version;
        use bitcoin::*;
        let mut rng = Rng::new(seed);
        let segwit = kind % 2 == 1 || kind == 10;
        let n_in = 1 + rng.below(3) as usize;
        let n_out = if kind == 3 { 0 } else { 1 + rng.below(3) as usize };
        let input = (0..n_in)
            .map(|_| {
                let mut witness = Witness::new();
                if segwit {
                    witness.push(rng.bytes_between(1, 70));
                    witness.push(rng.bytes(33));
                }
                let mut txid = [0u8; 32];
                txid.copy_from_slice(&rng.bytes(32));
                TxIn {
                    previous_output: OutPoint {
                        txid: Txid::from_byte_array(txid),
                        vout: rng.below(4) as u32,
                    },
                    script_sig: ScriptBuf::from_bytes(rng.bytes_between(0, 60)),
                    sequence: Sequence::MAX,
                    witness,
                }
            })
            .collect();
        let output = (0..n_out)
            .map(|_| {
                let e = rng.pick(&self.net.wallet.entries);
                TxOut {
                    // any u64 is a well-formed amount (sums of outputs may exceed 2^64)
                    value: Amount::from_sat(match rng.below(8) {
                        0 => u64::MAX - rng.below(1000),
                        1 => 1u64 << 63,
                        _ => rng.below(1_000_000),
                    }),
                    script_pubkey: ScriptBuf::from_bytes(e.script.clone()),
                }
            })
            .collect();
        let tx = Transaction {
            version: Version::TWO,
            lock_time: LockTime::ZERO,
            input,
            output,
        };
        bitcoin::consensus::serialize(&tx)
    }

    fn send_tx(&mut self, seed: u64, kind: u8, net_k: u8, reject: bool) -> Result<bool, Violation> {
        let mut rng = Rng::new(seed ^ 0x77);
        let base = self.sample_tx(seed, kind);
        let payload: Vec<u8> = match kind {
            0..=3 => base,
            10 => {
                // the segwit transaction of this seed with a different first witness item
                let mut tx: bitcoin::Transaction = bitcoin::consensus::deserialize(&base).expect("sample_tx is well-formed");
                let mut w = bitcoin::Witness::new();
                w.push(rng.bytes_between(1, 40));
                w.push(vec![7u8; 33]);
                tx.input[0].witness = w;
                bitcoin::consensus::serialize(&tx)
            }
            4 => base[..rng.usize_below(base.len())].to_vec(),
            5 => {
                let mut b = base;
                b.extend(rng.bytes_between(1, 8));
                b
            }
            6 => {
                let mut b = base;
                let i = rng.usize_below(b.len());
                b[i] ^= 1 << rng.below(8);
                b
            }
            7 => vec![],
            8 => {
                let mut b = rng.bytes_between(1, 4);
                b.extend(base);
                b
            }
            _ => rng.bytes_between(0, 120),
        };
        // strict reading of the statement: decodes and re-encodes to exactly itself
        let strict_ok = match bitcoin::consensus::deserialize::<bitcoin::Transaction>(&payload) {
            Ok(tx) => bitcoin::consensus::serialize(&tx) == payload,
            Err(_) => false,
        };
        let req_net = other_network(self.network, net_k);
        let count_before = ic_btc_canister::with_state(|s| s.metrics.send_transaction_count);
        canister::take_send_tx_log();
        canister::arm_send_tx_reject(if reject { Some((2, "queue full".into())) } else { None });
        canister::begin_client_message(0, self.now);
        self.stats.oracle_comparisons += 1;
        let r = canister::send_transaction(payload.clone(), req_net);
        canister::arm_send_tx_reject(None);
        let forwarded = canister::take_send_tx_log();
        let count_after = ic_btc_canister::with_state(|s| s.metrics.send_transaction_count);
        let desc = format!(
            "payload of {} bytes (kind {kind}, strictly well-formed: {strict_ok}), network {req_net}, api_access {}",
            payload.len(),
            self.api_access
        );
        let should_forward = self.api_access && req_net == self.network && strict_ok;
        if !should_forward {
            if !forwarded.is_empty() {
                return Err(violation("C19", "forwarded-when-it-must-not", format!("{desc}: {} payload(s) forwarded", forwarded.len())));
            }
            if count_after != count_before {
                return Err(violation("C19", "counted-when-it-must-not", format!("{desc}: send_transaction_count moved")));
            }
            match r {
                Ok(Ok(())) => return Err(violation("C19", "accepted-when-it-must-not", format!("{desc}: returned Ok"))),
                Ok(Err(SendTransactionError::MalformedTransaction)) => {
                    if !self.api_access || req_net != self.network {
                        return Err(violation("C19", "guard-order", format!("{desc}: answered MalformedTransaction instead of refusing the call")));
                    }
                    self.stats.probe("send_tx_malformed_refused");
                }
                Ok(Err(e)) => return Err(violation("C19", "wrong-error", format!("{desc}: {e:?}"))),
                Err(_) => {
                    if self.api_access && req_net == self.network {
                        return Err(violation("C19", "trap-instead-of-error", format!("{desc}: trapped instead of MalformedTransaction")));
                    }
                    self.stats.probe("send_tx_guard_refused");
                }
            }
            return Ok(true);
        }
        // must be forwarded unchanged and counted once
        if forwarded.len() != 1 || forwarded[0].transaction != payload || forwarded[0].network != self.network {
            return Err(violation("C19", "not-forwarded-unchanged", format!("{desc}: forwarded {} payload(s)", forwarded.len())));
        }
        if !reject {
            if count_after != count_before + 1 {
                return Err(violation("C19", "not-counted-once", format!("{desc}: counter moved by {}", count_after - count_before)));
            }
            if r != Ok(Ok(())) {
                return Err(violation("C19", "well-formed-refused", format!("{desc}: result {r:?}")));
            }
            self.stats.probe("send_tx_forwarded");
        } else {
            // the internal call was rejected (the call traps by design); what was forwarded was
            // nevertheless a counted request
            if count_after != count_before + 1 {
                return Err(violation("C19", "forwarded-but-not-counted", format!("{desc}: payload forwarded (the block source rejected it), counter moved by {}", count_after - count_before)));
            }
            self.stats.probe("send_tx_internal_reject");
        }
        Ok(true)
    }

    // ------------------------------------------------------------------ C14
    fn gate_probe(&mut self, endpoint: u8, net_k: u8) -> Result<bool, Violation> {
        let req_net = other_network(self.network, net_k);
        let addrs = self.net.wallet.addresses();
        let a = addrs[(endpoint as usize * 5 + net_k as usize) % addrs.len()].clone();
        let wrong_net = req_net != self.network;
        let synced_rule = self.sync_flag && !self.model_synced();
        canister::begin_client_message(0, self.now);
        let digest_before = self.state_digest();
        let acc_before = canister::cycles_accepted();
        self.stats.oracle_comparisons += 1;
        let (name, refused): (&str, bool) = match endpoint {
            0 => ("get_utxos", canister::get_utxos_update(&a, req_net, None).is_err()),
            1 => ("get_utxos_query", canister::get_utxos_query(&a, req_net, None).is_err()),
            2 => ("get_balance", canister::get_balance_update(&a, req_net, None).is_err()),
            3 => ("get_balance_query", canister::get_balance_query(&a, req_net, None).is_err()),
            4 => ("get_block_headers", canister::get_block_headers(0, None, req_net).is_err()),
            5 => ("get_current_fee_percentiles", canister::get_fee_percentiles(req_net).is_err()),
            _ => {
                let tx = self.sample_tx(net_k as u64 + 17, 0);
                canister::take_send_tx_log();
                let r = canister::send_transaction(tx, req_net).is_err();
                canister::take_send_tx_log();
                ("send_transaction", r)
            }
        };
        let expect_refused = !self.api_access || wrong_net || (synced_rule && endpoint != 6);
        if wrong_net {
            self.stats.probe("gate_wrong_network");
        }
        if synced_rule && endpoint == 6 {
            self.stats.probe("send_transaction_exempt_from_sync_rule");
        }
        if refused != expect_refused {
            return Err(violation(
                "C14",
                if refused { "refused-while-open" } else { "answered-while-gated" },
                format!(
                    "{name} naming {req_net}: refused={refused}, expected refused={expect_refused} (api_access {}, flag {}, announced max height {:?}, best height {})",
                    self.api_access,
                    self.sync_flag,
                    self.max_announced_height(),
                    self.anchor_height() + self.best_chain().len() as u32 - 1
                ),
            ));
        }
        if refused {
            if canister::cycles_accepted() != acc_before || self.state_digest() != digest_before {
                return Err(violation("C14", "effect-on-refusal", format!("{name}: refused call had an effect")));
            }
        }
        if let Err(t) = canister::get_config() {
            return Err(violation("C14", "get_config-refused", t.0));
        }
        if let Err(t) = canister::get_blockchain_info() {
            return Err(violation("C14", "get_blockchain_info-refused", t.0));
        }
        Ok(true)
    }
}

#[allow(dead_code)]
fn unused(_: Hash32) {}
