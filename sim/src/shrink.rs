//! Trace minimisation: delta debugging over the explicit event list while the same violation
//! (same property, same kind) persists. Each attempt runs on a fresh thread.

use crate::replay_trace;
use crate::trace::*;
use std::time::{Duration, Instant};

fn same(v: &Violation, w: &Violation) -> bool {
    v.property == w.property && v.kind == w.kind
}

fn relabel(target: &Violation, got: Violation) -> Violation {
    // C09 attribution: the driver labels foreign oracles "after-upgrade:..."; keep the property
    // of the violation being minimised.
    if target.property == "C09" && got.kind == target.kind {
        let mut g = got;
        g.property = "C09".into();
        return g;
    }
    got
}

fn try_trace(cfg: &RunConfig, events: &[Event], target: &Violation) -> Option<(Vec<Event>, Violation)> {
    let o = replay_trace(cfg.clone(), events.to_vec());
    if o.harness_error.is_some() {
        return None;
    }
    let v = relabel(target, o.violation?);
    if same(&v, target) {
        if target.property == "C09" && target.kind.starts_with("after-upgrade:") {
            // the attribution to C09 must survive the reduction: the same (reduced) trace without
            // its upgrades has to be clean, exactly as triage and replay decide it
            let keep = (v.at_event + 1).min(events.len());
            let twin_events: Vec<Event> = events[..keep].iter().filter(|e| !matches!(e, Event::Upgrade { .. })).cloned().collect();
            if twin_events.len() == keep {
                return None;
            }
            let twin = replay_trace(cfg.clone(), twin_events);
            if twin.violation.is_some() || twin.harness_error.is_some() {
                return None;
            }
        }
        // truncate after the failing event
        let keep = (v.at_event + 1).min(events.len());
        Some((events[..keep].to_vec(), v))
    } else {
        None
    }
}

fn simplify_event(e: &Event) -> Vec<Event> {
    let mut out = vec![];
    match e {
        Event::Heartbeat { pause_at } if *pause_at != 0 => out.push(Event::Heartbeat { pause_at: 0 }),
        Event::Deliver { task, reply, pause_at } => {
            if *pause_at != 0 {
                out.push(Event::Deliver { task: *task, reply: reply.clone(), pause_at: 0 });
            }
            if *task != 0 {
                out.push(Event::Deliver { task: 0, reply: reply.clone(), pause_at: *pause_at });
            }
            match reply {
                ReplySpec::Honest { max_blocks, max_next, page, lag, include_invalid } => {
                    if *max_next != 0 {
                        out.push(Event::Deliver {
                            task: *task,
                            reply: ReplySpec::Honest { max_blocks: *max_blocks, max_next: 0, page: *page, lag: *lag, include_invalid: *include_invalid },
                            pause_at: *pause_at,
                        });
                    }
                    if *page != 2_000_000 {
                        out.push(Event::Deliver {
                            task: *task,
                            reply: ReplySpec::Honest { max_blocks: *max_blocks, max_next: *max_next, page: 2_000_000, lag: *lag, include_invalid: *include_invalid },
                            pause_at: *pause_at,
                        });
                    }
                    if *lag != 0 || *include_invalid {
                        out.push(Event::Deliver {
                            task: *task,
                            reply: ReplySpec::Honest { max_blocks: *max_blocks, max_next: *max_next, page: *page, lag: 0, include_invalid: false },
                            pause_at: *pause_at,
                        });
                    }
                }
                ReplySpec::Explicit { blocks, next } => {
                    if !next.is_empty() {
                        out.push(Event::Deliver { task: *task, reply: ReplySpec::Explicit { blocks: blocks.clone(), next: vec![] }, pause_at: *pause_at });
                    }
                    if blocks.len() > 1 {
                        for i in 0..blocks.len() {
                            let mut b = blocks.clone();
                            b.remove(i);
                            out.push(Event::Deliver { task: *task, reply: ReplySpec::Explicit { blocks: b, next: next.clone() }, pause_at: *pause_at });
                        }
                    }
                }
                _ => {}
            }
        }
        Event::Mine(spec) => {
            if spec.ntx > 0 {
                let mut s = spec.clone();
                s.ntx = 0;
                out.push(Event::Mine(s));
                if spec.ntx > 1 {
                    let mut s = spec.clone();
                    s.ntx = 1;
                    out.push(Event::Mine(s));
                }
            }
            if spec.difficulty != 0 {
                let mut s = spec.clone();
                s.difficulty = 0;
                out.push(Event::Mine(s));
            }
            if spec.remine != 0 {
                let mut s = spec.clone();
                s.remine = 0;
                out.push(Event::Mine(s));
            }
            if spec.special != crate::net::Special::None {
                let mut s = spec.clone();
                s.special = crate::net::Special::None;
                out.push(Event::Mine(s));
            }
            if spec.dt != 600 {
                let mut s = spec.clone();
                s.dt = 600;
                out.push(Event::Mine(s));
            }
        }
        Event::Upgrade { arg: Some(_) } => out.push(Event::Upgrade { arg: None }),
        _ => {}
    }
    out
}

/// Minimises `events`; returns the smallest trace found and its violation.
pub fn shrink(cfg: &RunConfig, events: &[Event], target: &Violation, time_box: Duration) -> (Vec<Event>, Violation) {
    let start = Instant::now();
    let mut best: Vec<Event> = events[..(target.at_event + 1).min(events.len())].to_vec();
    let mut best_v = target.clone();
    // the truncated trace must itself reproduce; if not keep the original
    match try_trace(cfg, &best, target) {
        Some((e, v)) => {
            best = e;
            best_v = v;
        }
        None => match try_trace(cfg, events, target) {
            Some((e, v)) => {
                best = e;
                best_v = v;
            }
            None => return (events.to_vec(), target.clone()),
        },
    }
    // ddmin over chunks
    let mut chunk = (best.len() / 2).max(1);
    while chunk >= 1 && start.elapsed() < time_box {
        let mut i = 0;
        let mut progress = false;
        while i < best.len() && start.elapsed() < time_box {
            let end = (i + chunk).min(best.len());
            // never remove the last (failing) event
            if end >= best.len() && chunk >= best.len() {
                break;
            }
            let mut cand = best[..i].to_vec();
            cand.extend_from_slice(&best[end..]);
            if cand.is_empty() {
                i += chunk;
                continue;
            }
            if let Some((e, v)) = try_trace(cfg, &cand, target) {
                best = e;
                best_v = v;
                progress = true;
            } else {
                i += chunk;
            }
        }
        if chunk == 1 && !progress {
            break;
        }
        if !progress {
            chunk /= 2;
        } else if chunk > 1 {
            chunk = (chunk / 2).max(1);
        }
    }
    // simplify parameters
    let mut changed = true;
    while changed && start.elapsed() < time_box {
        changed = false;
        let mut i = 0;
        while i < best.len() {
            if start.elapsed() >= time_box {
                break;
            }
            let idx = i;
            i += 1;
            let i = idx;
            for alt in simplify_event(&best[i]) {
                let mut cand = best.clone();
                cand[i] = alt;
                if let Some((e, v)) = try_trace(cfg, &cand, target) {
                    best = e;
                    best_v = v;
                    changed = true;
                    break;
                }
            }
        }
    }
    (best, best_v)
}
