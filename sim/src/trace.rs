//! Explicit, self-contained events (the trace) and the per-run configuration. A replay file is
//! nothing but a `RunConfig` plus a list of `Event`s: replaying it needs no PRNG.

use crate::net::MineSpec;
use serde::{Deserialize, Serialize};

#[derive(Clone, Debug, PartialEq, Eq, Serialize, Deserialize)]
pub struct RunConfig {
    pub seed: u64,
    pub profile: String,
    pub network: String, // "regtest" | "testnet" | "mainnet"
    pub threshold: u32,
    pub wallet_seed: u64,
    pub wallet_size: usize,
    /// page size used by the snapshot oracles (hook H4); the real limit 1000 is used as well
    pub page_limit: usize,
    pub bucket_pages: u16,
    pub lazy_fees: bool,
    pub sync_flag: bool,
    /// explicit fees at init (None = network defaults)
    pub fees: Option<FeeSpec>,
    pub quiesce: bool,
    /// C17 only: index of the watchdog target configuration (0..5)
    #[serde(default)]
    pub watchdog_target: u8,
    /// difficulty assigned to the genesis block (hook H5, set before init); 0 = natural
    #[serde(default)]
    pub genesis_difficulty: u64,
}

#[derive(Clone, Debug, PartialEq, Eq, Serialize, Deserialize)]
pub struct FeeSpec {
    pub get_utxos_base: u64,
    pub get_utxos_rate: u64,
    pub get_utxos_maximum: u64,
    pub get_balance: u64,
    pub get_balance_maximum: u64,
    pub fee_percentiles: u64,
    pub fee_percentiles_maximum: u64,
    pub send_base: u64,
    pub send_per_byte: u64,
    pub headers_base: u64,
    pub headers_rate: u64,
    pub headers_maximum: u64,
}

#[derive(Clone, Debug, PartialEq, Eq, Serialize, Deserialize)]
pub enum BlockOffer {
    /// the block as mined
    Block(usize),
    /// the first `len` bytes of the block
    Truncated(usize, u32),
    /// `len` pseudo-random bytes from `seed`
    Garbage(u64, u32),
    Empty,
    /// (only as poison of an honest reply) a copy of the reply's own `i`-th block
    ReplyBlock(u8),
}

#[derive(Clone, Debug, PartialEq, Eq, Serialize, Deserialize)]
pub enum HeaderOffer {
    Header(usize),
    /// the header followed by `extra` bytes (the wire type has no length check)
    Padded(usize, u8),
    /// the first `len` (< 80) bytes of the header
    Short(usize, u8),
    Garbage(u64, u8),
}

#[derive(Clone, Debug, PartialEq, Eq, Serialize, Deserialize)]
pub enum ReplySpec {
    /// What the replica's adapter would answer to the request, from the network as it is.
    /// `page`: maximum bytes per reply page (blocks larger than this are sent in pages).
    Honest {
        max_blocks: u8,
        max_next: u8,
        page: u32,
        lag: u8,
        include_invalid: bool,
    },
    Reject(u8),
    Empty,
    /// Adversarial complete reply.
    Explicit {
        blocks: Vec<BlockOffer>,
        next: Vec<HeaderOffer>,
    },
    /// The honest answer with one extra (typically rejected) block inserted at position `at`.
    HonestPoisoned {
        max_blocks: u8,
        max_next: u8,
        poison: BlockOffer,
        at: u8,
    },
    /// The honest answer with its blocks in reverse order (children before parents).
    HonestReversed { max_blocks: u8, max_next: u8 },
    /// A paged reply for one block with an explicit page count (`pages` follow-ups).
    Paged { block: usize, follow_ups: u8, max_next: u8 },
}

#[derive(Clone, Debug, PartialEq, Eq, Serialize, Deserialize)]
pub struct ConfigSpec {
    pub threshold: Option<u32>,
    pub syncing: Option<bool>,
    pub api_access: Option<bool>,
    pub sync_flag: Option<bool>,
    pub lazy_fees: Option<bool>,
    pub fees: Option<FeeSpec>,
}

#[derive(Clone, Debug, PartialEq, Eq, Serialize, Deserialize)]
pub enum ClientOp {
    /// open a pagination session on wallet address `addr` with page size `limit` (0 = real 1000)
    /// (`min_conf`: first request filtered by min_confirmations; follow-ups use the page token)
    OpenSession { session: usize, addr: usize, limit: usize, #[serde(default)] min_conf: Option<u32> },
    /// request the next page of a session
    NextPage { session: usize },
    /// get_utxos with arbitrary page bytes
    RawPage { addr: usize, seed: u64, len: u8, from_session: Option<usize>, flip: Option<u8> },
    FeePercentiles,
    /// update call with attached cycles: endpoint index, address index, cycles class, counter
    Paid { endpoint: u8, addr: usize, cycles: u8, counter: u64, arg: u32 },
    SendTx { seed: u64, kind: u8, net: u8, reject: bool },
    /// call an endpoint naming network `net` (0 = own, 1/2 = others)
    Gate { endpoint: u8, net: u8 },
}

#[derive(Clone, Debug, PartialEq, Eq, Serialize, Deserialize)]
pub enum Event {
    Mine(MineSpec),
    /// heartbeat whose ingestion pauses at the `pause_at`-th slice check (0 = never)
    Heartbeat { pause_at: u64 },
    /// deliver a reply to the `task`-th suspended heartbeat (0 = oldest)
    Deliver { task: usize, reply: ReplySpec, pause_at: u64 },
    Client(ClientOp),
    SetConfig(ConfigSpec),
    Upgrade { arg: Option<ConfigSpec> },
    Time { secs: u64 },
    /// run heartbeats with honest immediate replies until nothing is left to do (bounded)
    Quiesce,
    /// C17: one watchdog round against the stub explorers / stub canister
    WatchdogRound(RoundSpec),
}

/// What each explorer answers in a round: (kind, value). kind 0 = height `value` in the
/// explorer's own format; other kinds are failures (see watchdog_sim.rs).
#[derive(Clone, Debug, PartialEq, Eq, Serialize, Deserialize)]
pub struct RoundSpec {
    pub explorers: Vec<(u8, u64)>,
    /// registration order of the mocks (indices into the provider list)
    pub order: Vec<u8>,
    /// None = the get_blockchain_info call fails
    pub canister_height: Option<u64>,
    /// the canister's api_access flag; None = get_config fails
    pub actual_flag: Option<bool>,
    pub set_config_fails: bool,
    pub permute_seed: u64,
}

impl Event {
    pub fn kind(&self) -> &'static str {
        match self {
            Event::Mine(_) => "mine",
            Event::Heartbeat { .. } => "heartbeat",
            Event::Deliver { .. } => "deliver",
            Event::Client(_) => "client",
            Event::SetConfig(_) => "set_config",
            Event::Upgrade { .. } => "upgrade",
            Event::Time { .. } => "time",
            Event::Quiesce => "quiesce",
            Event::WatchdogRound(_) => "watchdog_round",
        }
    }
}

#[derive(Clone, Debug, PartialEq, Eq, Serialize, Deserialize)]
pub struct Violation {
    pub property: String,
    /// stable class of the violation (used to decide "same violation" while shrinking)
    pub kind: String,
    pub detail: String,
    pub at_event: usize,
}

#[derive(Clone, Debug, Serialize, Deserialize)]
pub struct ReplayFile {
    pub property: String,
    pub config: RunConfig,
    pub events: Vec<Event>,
    pub violation: Violation,
    pub log_digest: String,
    pub note: String,
}
