//! `RefHeaderRules`: the Bitcoin consensus header rules, written from Bitcoin Core's
//! `GetNextWorkRequired` / `CalculateNextWorkRequired` / `GetMedianTimePast` with the
//! simulator's own 256-bit arithmetic. Used to *produce* valid headers and to *label* every
//! header with its expected verdict. Does not call ic-btc-validation or rust-bitcoin's pow code.

use bitcoin::block::Header;
use ic_btc_interface::Network;
use std::cmp::Ordering;

#[derive(Clone, Copy, Debug, PartialEq, Eq)]
pub struct U256(pub [u64; 4]); // little endian limbs

impl U256 {
    pub const ZERO: U256 = U256([0; 4]);

    pub fn from_u64(x: u64) -> U256 {
        U256([x, 0, 0, 0])
    }

    pub fn shl(self, n: u32) -> U256 {
        let mut out = [0u64; 4];
        let limbs = (n / 64) as usize;
        let bits = n % 64;
        for i in (0..4).rev() {
            if i < limbs {
                continue;
            }
            let mut v = self.0[i - limbs] << bits;
            if bits > 0 && i > limbs {
                v |= self.0[i - limbs - 1] >> (64 - bits);
            }
            out[i] = v;
        }
        U256(out)
    }

    pub fn shr(self, n: u32) -> U256 {
        let mut out = [0u64; 4];
        let limbs = (n / 64) as usize;
        let bits = n % 64;
        for i in 0..4 {
            if i + limbs >= 4 {
                continue;
            }
            let mut v = self.0[i + limbs] >> bits;
            if bits > 0 && i + limbs + 1 < 4 {
                v |= self.0[i + limbs + 1] << (64 - bits);
            }
            out[i] = v;
        }
        U256(out)
    }

    pub fn bits(self) -> u32 {
        for i in (0..4).rev() {
            if self.0[i] != 0 {
                return 64 * i as u32 + (64 - self.0[i].leading_zeros());
            }
        }
        0
    }

    /// Multiplication truncated to 256 bits (as arith_uint256 does).
    pub fn mul_u64(self, m: u64) -> U256 {
        let mut out = [0u64; 4];
        let mut carry: u128 = 0;
        for i in 0..4 {
            let p = self.0[i] as u128 * m as u128 + carry;
            out[i] = p as u64;
            carry = p >> 64;
        }
        U256(out)
    }

    pub fn div_u64(self, d: u64) -> U256 {
        let mut out = [0u64; 4];
        let mut rem: u128 = 0;
        for i in (0..4).rev() {
            let cur = (rem << 64) | self.0[i] as u128;
            out[i] = (cur / d as u128) as u64;
            rem = cur % d as u128;
        }
        U256(out)
    }

    pub fn sub(self, o: U256) -> U256 {
        let mut out = [0u64; 4];
        let mut borrow = 0u64;
        for i in 0..4 {
            let (a, b1) = self.0[i].overflowing_sub(o.0[i]);
            let (b, b2) = a.overflowing_sub(borrow);
            out[i] = b;
            borrow = (b1 || b2) as u64;
        }
        U256(out)
    }

    /// Schoolbook shift-subtract division.
    pub fn div(self, d: U256) -> U256 {
        assert!(d != U256::ZERO);
        let mut q = U256::ZERO;
        let mut r = U256::ZERO;
        for i in (0..256).rev() {
            r = r.shl(1);
            if (self.0[i / 64] >> (i % 64)) & 1 == 1 {
                r.0[0] |= 1;
            }
            if r >= d {
                r = r.sub(d);
                q.0[i / 64] |= 1 << (i % 64);
            }
        }
        q
    }

    pub fn saturating_u128(self) -> u128 {
        if self.0[2] != 0 || self.0[3] != 0 {
            u128::MAX
        } else {
            (self.0[1] as u128) << 64 | self.0[0] as u128
        }
    }

    pub fn from_be_bytes(b: [u8; 32]) -> U256 {
        let mut l = [0u64; 4];
        for i in 0..4 {
            let mut x = [0u8; 8];
            x.copy_from_slice(&b[(3 - i) * 8..(4 - i) * 8]);
            l[i] = u64::from_be_bytes(x);
        }
        U256(l)
    }
}

impl PartialOrd for U256 {
    fn partial_cmp(&self, other: &Self) -> Option<Ordering> {
        Some(self.cmp(other))
    }
}
impl Ord for U256 {
    fn cmp(&self, other: &Self) -> Ordering {
        for i in (0..4).rev() {
            match self.0[i].cmp(&other.0[i]) {
                Ordering::Equal => {}
                o => return o,
            }
        }
        Ordering::Equal
    }
}

/// arith_uint256::SetCompact. Returns (value, negative, overflow).
pub fn set_compact(bits: u32) -> (U256, bool, bool) {
    let size = bits >> 24;
    let word = bits & 0x007f_ffff;
    let value = if size <= 3 {
        U256::from_u64((word >> (8 * (3 - size))) as u64)
    } else {
        U256::from_u64(word as u64).shl(8 * (size - 3))
    };
    let negative = word != 0 && (bits & 0x0080_0000) != 0;
    let overflow = word != 0 && (size > 34 || (word > 0xff && size > 33) || (word > 0xffff && size > 32));
    (value, negative, overflow)
}

/// arith_uint256::GetCompact (non-negative).
pub fn get_compact(v: U256) -> u32 {
    let mut size = (v.bits() + 7) / 8;
    let mut compact: u32 = if size <= 3 {
        (v.0[0] << (8 * (3 - size))) as u32
    } else {
        v.shr(8 * (size - 3)).0[0] as u32
    };
    if compact & 0x0080_0000 != 0 {
        compact >>= 8;
        size += 1;
    }
    compact | (size << 24)
}

pub fn pow_limit_bits(net: Network) -> u32 {
    match net {
        Network::Mainnet | Network::Testnet => 0x1d00ffff,
        Network::Regtest => 0x207fffff,
    }
}

pub fn pow_limit(net: Network) -> U256 {
    set_compact(pow_limit_bits(net)).0
}

const INTERVAL: u32 = 2016;
const TARGET_TIMESPAN: u64 = 14 * 24 * 60 * 60;
const TARGET_SPACING: u32 = 600;

/// Median of the timestamps of the last up to 11 headers of `chain` (chain = genesis ..= parent).
pub fn median_time_past(chain: &[Header]) -> u32 {
    let n = chain.len().min(11);
    let mut t: Vec<u32> = chain[chain.len() - n..].iter().map(|h| h.time).collect();
    t.sort();
    t[t.len() / 2]
}

fn calculate_next_work_required(chain: &[Header], net: Network) -> u32 {
    // chain = genesis ..= last; height(last) = chain.len() - 1
    let last = chain.last().unwrap();
    if net == Network::Regtest {
        return last.bits.to_consensus();
    }
    let last_height = chain.len() as u32 - 1;
    let first_height = last_height - (INTERVAL - 1);
    let first = &chain[first_height as usize];
    let mut actual = (last.time as i64 - first.time as i64).max(0) as u64;
    // Core works on int64; a negative span clamps to the minimum like any small value.
    if (last.time as i64) < first.time as i64 {
        actual = 0;
    }
    let actual = actual.clamp(TARGET_TIMESPAN / 4, TARGET_TIMESPAN * 4);
    let base_bits = if net == Network::Testnet {
        // BIP94 (testnet4): the first block of the period is the base.
        first.bits.to_consensus()
    } else {
        last.bits.to_consensus()
    };
    let (mut new, _, _) = set_compact(base_bits);
    new = new.mul_u64(actual).div_u64(TARGET_TIMESPAN);
    let limit = pow_limit(net);
    if new > limit {
        new = limit;
    }
    get_compact(new)
}

/// Bits consensus requires for a block with timestamp `time` on top of `chain`
/// (chain = genesis ..= parent).
pub fn required_bits(chain: &[Header], time: u32, net: Network) -> u32 {
    let last = chain.last().unwrap();
    let last_height = chain.len() as u32 - 1;
    let limit_bits = pow_limit_bits(net);
    if (last_height + 1) % INTERVAL != 0 {
        let allow_min = matches!(net, Network::Testnet | Network::Regtest);
        if allow_min {
            if time as u64 > last.time as u64 + 2 * TARGET_SPACING as u64 {
                return limit_bits;
            }
            // Walk back to the last block that is not a min-difficulty exception.
            let mut idx = chain.len() - 1;
            while idx > 0 && (idx as u32) % INTERVAL != 0 && chain[idx].bits.to_consensus() == limit_bits {
                idx -= 1;
            }
            return chain[idx].bits.to_consensus();
        }
        return last.bits.to_consensus();
    }
    calculate_next_work_required(chain, net)
}

#[derive(Clone, Debug, PartialEq, Eq)]
pub enum HeaderVerdict {
    Valid,
    TimeTooOld,
    TimeTooNew,
    TargetAboveMax,
    BadProofOfWork,
    WrongTarget,
}

fn hash_as_u256(h: &Header) -> U256 {
    use bitcoin::hashes::Hash;
    let mut b = h.block_hash().to_byte_array(); // little endian
    b.reverse();
    U256::from_be_bytes(b)
}

/// The header rules of C11 for `header` on top of `chain` (genesis ..= parent) at time `now`.
/// `check_pow_hash = false` mirrors runs with synthetic proof of work (H6).
pub fn validate_header(
    chain: &[Header],
    header: &Header,
    now_secs: u64,
    net: Network,
    check_pow_hash: bool,
) -> HeaderVerdict {
    if header.time as u64 > now_secs + 7200 {
        return HeaderVerdict::TimeTooNew;
    }
    if header.time <= median_time_past(chain) {
        return HeaderVerdict::TimeTooOld;
    }
    let bits = header.bits.to_consensus();
    let (target, neg, ovf) = set_compact(bits);
    if neg || ovf || target == U256::ZERO || target > pow_limit(net) {
        return HeaderVerdict::TargetAboveMax;
    }
    if check_pow_hash && hash_as_u256(header) > target {
        return HeaderVerdict::BadProofOfWork;
    }
    let req = required_bits(chain, header.time, net);
    if set_compact(req).0 != target {
        return HeaderVerdict::WrongTarget;
    }
    HeaderVerdict::Valid
}

/// "bdiff": max attainable target / target, saturating.
pub fn difficulty_of_bits(bits: u32, net: Network) -> u128 {
    let (t, _, _) = set_compact(bits);
    if t == U256::ZERO {
        return u128::MAX;
    }
    pow_limit(net).div(t).saturating_u128()
}

/// Some bits value different from `bits` that does not exceed the network maximum.
pub fn perturb_bits(bits: u32, net: Network) -> u32 {
    let (t, _, _) = set_compact(bits);
    let half = get_compact(t.shr(1));
    if half != bits && set_compact(half).0 != U256::ZERO {
        half
    } else {
        let _ = net;
        get_compact(t.shr(2))
    }
}

pub fn bits_above_max(net: Network) -> u32 {
    match net {
        Network::Mainnet | Network::Testnet => 0x1d01_0000, // 2 * pow limit-ish
        Network::Regtest => 0x2100_ffff,
    }
}

#[cfg(test)]
mod tests {
    use super::*;
    #[test]
    fn compact_roundtrip() {
        for bits in [0x1d00ffffu32, 0x207fffff, 0x1b0404cb, 0x1c3fffc0] {
            assert_eq!(get_compact(set_compact(bits).0), bits);
        }
        assert_eq!(difficulty_of_bits(0x1b0404cb, Network::Mainnet), 16307);
    }
}
