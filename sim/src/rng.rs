//! The only source of randomness in the simulator: xoshiro256** seeded through SplitMix64.
//! Everything a run does is a pure function of the 64-bit seed handed to `Rng::new`.

#[derive(Clone, Debug)]
pub struct Rng {
    s: [u64; 4],
}

pub fn splitmix64(state: &mut u64) -> u64 {
    *state = state.wrapping_add(0x9E37_79B9_7F4A_7C15);
    let mut z = *state;
    z = (z ^ (z >> 30)).wrapping_mul(0xBF58_476D_1CE4_E5B9);
    z = (z ^ (z >> 27)).wrapping_mul(0x94D0_49BB_1331_11EB);
    z ^ (z >> 31)
}

/// Derives the seed of run `index` of a batch seeded with `master`.
pub fn derive_seed(master: u64, index: u64) -> u64 {
    let mut st = master ^ index.wrapping_mul(0xD6E8_FEB8_6659_FD93);
    let a = splitmix64(&mut st);
    let b = splitmix64(&mut st);
    a ^ b.rotate_left(17)
}

impl Rng {
    pub fn new(seed: u64) -> Self {
        let mut st = seed;
        let s = [
            splitmix64(&mut st),
            splitmix64(&mut st),
            splitmix64(&mut st),
            splitmix64(&mut st),
        ];
        Rng { s }
    }

    pub fn next_u64(&mut self) -> u64 {
        let result = self.s[1].wrapping_mul(5).rotate_left(7).wrapping_mul(9);
        let t = self.s[1] << 17;
        self.s[2] ^= self.s[0];
        self.s[3] ^= self.s[1];
        self.s[1] ^= self.s[2];
        self.s[0] ^= self.s[3];
        self.s[2] ^= t;
        self.s[3] = self.s[3].rotate_left(45);
        result
    }

    /// Uniform in `0..n` (n > 0).
    pub fn below(&mut self, n: u64) -> u64 {
        debug_assert!(n > 0);
        // Multiply-shift; bias is irrelevant here.
        ((self.next_u64() as u128 * n as u128) >> 64) as u64
    }

    pub fn usize_below(&mut self, n: usize) -> usize {
        self.below(n as u64) as usize
    }

    /// Uniform in `lo..=hi`.
    pub fn range(&mut self, lo: u64, hi: u64) -> u64 {
        lo + self.below(hi - lo + 1)
    }

    /// True with probability `num/den`.
    pub fn chance(&mut self, num: u64, den: u64) -> bool {
        self.below(den) < num
    }

    pub fn pick<'a, T>(&mut self, xs: &'a [T]) -> &'a T {
        &xs[self.usize_below(xs.len())]
    }

    /// Index drawn proportionally to `weights` (sum must be > 0).
    pub fn weighted(&mut self, weights: &[u32]) -> usize {
        let total: u64 = weights.iter().map(|w| *w as u64).sum();
        let mut x = self.below(total.max(1));
        for (i, w) in weights.iter().enumerate() {
            if x < *w as u64 {
                return i;
            }
            x -= *w as u64;
        }
        weights.len() - 1
    }

    pub fn bytes(&mut self, n: usize) -> Vec<u8> {
        let mut v = Vec::with_capacity(n);
        while v.len() < n {
            let x = self.next_u64().to_le_bytes();
            let take = (n - v.len()).min(8);
            v.extend_from_slice(&x[..take]);
        }
        v
    }

    /// `lo + below(span)` pseudo-random bytes.
    pub fn bytes_between(&mut self, lo: usize, span: usize) -> Vec<u8> {
        let n = lo + self.usize_below(span);
        self.bytes(n)
    }

    /// Geometric-ish small number: 0 with prob 1/2, 1 with 1/4, ... capped.
    pub fn geometric(&mut self, cap: u64) -> u64 {
        let mut k = 0;
        while k < cap && self.chance(1, 2) {
            k += 1;
        }
        k
    }

    pub fn fork(&mut self) -> Rng {
        Rng::new(self.next_u64())
    }
}

/// FNV-1a 64-bit, used for digests of logs and fingerprints (never for security).
#[derive(Clone, Copy)]
pub struct Fnv(pub u64);

impl Default for Fnv {
    fn default() -> Self {
        Fnv(0xcbf2_9ce4_8422_2325)
    }
}

impl Fnv {
    pub fn write(&mut self, bytes: &[u8]) {
        for b in bytes {
            self.0 ^= *b as u64;
            self.0 = self.0.wrapping_mul(0x0000_0100_0000_01B3);
        }
    }
    pub fn write_u64(&mut self, x: u64) {
        self.write(&x.to_le_bytes());
    }
    pub fn write_str(&mut self, s: &str) {
        self.write(s.as_bytes());
        self.write(&[0xff]);
    }
}
