//! C20: the canister's internal bookkeeping for unstable blocks, read through existing `pub`
//! items only (serde of `state.unstable_blocks`, a second handle on the block-body cache),
//! compared with what the model tree requires.

use crate::model::{Hash32, OutP};
use crate::sim::*;
use crate::trace::Violation;
use ciborium::value::Value;
use ic_btc_canister::unstable_blocks::{BlocksCache, BlocksCacheInStableMem};
use std::collections::{BTreeMap, BTreeSet};

fn as_bytes32(v: &Value) -> Option<Hash32> {
    let bytes: Vec<u8> = match v {
        Value::Bytes(b) => b.clone(),
        Value::Array(a) => a
            .iter()
            .map(|x| x.as_integer().and_then(|i| u8::try_from(i).ok()))
            .collect::<Option<Vec<u8>>>()?,
        Value::Map(m) => {
            // newtype/struct wrappers: take the single field
            if m.len() == 1 {
                return as_bytes32(&m[0].1);
            }
            return None;
        }
        _ => return None,
    };
    if bytes.len() != 32 {
        return None;
    }
    let mut a = [0u8; 32];
    a.copy_from_slice(&bytes);
    Some(a)
}

fn field<'a>(v: &'a Value, name: &str) -> Option<&'a Value> {
    match v {
        Value::Map(m) => m.iter().find(|(k, _)| k.as_text() == Some(name)).map(|(_, v)| v),
        _ => None,
    }
}

fn as_u64(v: &Value) -> Option<u64> {
    v.as_integer().and_then(|i| u64::try_from(i).ok())
}

fn as_outpoint(v: &Value) -> Option<OutP> {
    let txid = as_bytes32(field(v, "txid")?)?;
    let vout = as_u64(field(v, "vout")?)? as u32;
    Some(OutP { txid, vout })
}

pub struct Bookkeeping {
    pub tree_hashes: Vec<Hash32>,
    pub cache_keys: BTreeSet<Hash32>,
    pub added_keys: BTreeSet<Hash32>,
    pub removed_keys: BTreeSet<Hash32>,
    pub tx_out_counts: BTreeMap<OutP, u64>,
    pub tx_out_heights: BTreeMap<OutP, u32>,
    pub tip_depths: Vec<u64>,
    pub announced: BTreeMap<Hash32, u32>,
    /// None when the (derived) height index is not part of the serialised state
    pub announced_by_height: Option<BTreeMap<u32, BTreeSet<Hash32>>>,
}

pub fn read_bookkeeping() -> Result<Bookkeeping, String> {
    let (buf, network) = ic_btc_canister::with_state(|s| {
        let mut buf = vec![];
        ciborium::ser::into_writer(&s.unstable_blocks, &mut buf).map_err(|e| e.to_string())?;
        Ok::<_, String>((buf, s.network()))
    })?;
    let v: Value = ciborium::de::from_reader(&buf[..]).map_err(|e| e.to_string())?;
    let tree = field(&v, "tree").ok_or("no tree")?;
    let mut tree_hashes = vec![];
    for e in tree.as_array().ok_or("tree not array")? {
        // ((header, hash, difficulty), n_children)
        let inner = e.as_array().ok_or("tree element")?;
        let triple = inner[0].as_array().ok_or("tree triple")?;
        tree_hashes.push(as_bytes32(&triple[1]).ok_or("tree hash")?);
    }
    let oc = field(&v, "outpoints_cache").ok_or("no outpoints_cache")?;
    let mut tx_out_counts = BTreeMap::new();
    let mut tx_out_heights = BTreeMap::new();
    if let Some(Value::Map(m)) = field(oc, "tx_outs") {
        for (k, val) in m {
            let op = as_outpoint(k).ok_or("tx_outs key")?;
            let count = as_u64(field(val, "count").ok_or("count")?).ok_or("count int")?;
            let height = as_u64(field(val, "height").ok_or("height")?).ok_or("height int")? as u32;
            tx_out_counts.insert(op.clone(), count);
            tx_out_heights.insert(op, height);
        }
    }
    let keys_of = |name: &str| -> Result<BTreeSet<Hash32>, String> {
        let mut s = BTreeSet::new();
        if let Some(Value::Map(m)) = field(oc, name) {
            for (k, _) in m {
                s.insert(as_bytes32(k).ok_or(format!("{name} key"))?);
            }
        }
        Ok(s)
    };
    let added_keys = keys_of("added_outpoints")?;
    let removed_keys = keys_of("removed_outpoints")?;
    let tip_depths = match field(&v, "tip_depths_cache") {
        Some(Value::Array(a)) => a.iter().filter_map(as_u64).collect(),
        _ => vec![],
    };
    let nb = field(&v, "next_block_headers").ok_or("no next_block_headers")?;
    let mut announced = BTreeMap::new();
    if let Some(Value::Map(m)) = field(nb, "hash_to_height_and_header") {
        for (k, val) in m {
            let h = as_bytes32(k).ok_or("announced key")?;
            let height = as_u64(&val.as_array().ok_or("announced value")?[0]).ok_or("announced height")? as u32;
            announced.insert(h, height);
        }
    }
    let mut announced_by_height: Option<BTreeMap<u32, BTreeSet<Hash32>>> = None;
    if let Some(Value::Map(m)) = field(nb, "height_to_hash") {
        let announced_by_height = announced_by_height.insert(BTreeMap::new());
        for (k, val) in m {
            let height = as_u64(k).ok_or("height key")? as u32;
            let set = val
                .as_array()
                .ok_or("height_to_hash value")?
                .iter()
                .filter_map(as_bytes32)
                .collect();
            announced_by_height.insert(height, set);
        }
    }
    let cache = BlocksCacheInStableMem::new(network, ic_btc_canister::memory::get_unstable_blocks_memory());
    let cache_keys: BTreeSet<Hash32> = cache
        .collect()
        .keys()
        .map(|h| {
            let mut a = [0u8; 32];
            a.copy_from_slice(h.as_bytes());
            a
        })
        .collect();
    Ok(Bookkeeping {
        tree_hashes,
        cache_keys,
        added_keys,
        removed_keys,
        tx_out_counts,
        tx_out_heights,
        tip_depths,
        announced,
        announced_by_height,
    })
}

impl World {
    pub fn check_bookkeeping(&mut self) -> Result<(), Violation> {
        self.stats.oracle_comparisons += 1;
        // an unreadable snapshot is a harness matter (the state layout changed), never a violation
        let bk = read_bookkeeping().map_err(|e| violation("HARNESS", "snapshot-unreadable", e))?;
        let model_hashes: BTreeSet<Hash32> = self.tree.nodes.keys().map(|i| self.block(*i).hash).collect();
        let tree_set: BTreeSet<Hash32> = bk.tree_hashes.iter().copied().collect();
        let name = |s: &BTreeSet<Hash32>, w: &World| -> Vec<String> {
            s.iter().map(|h| w.id_of(h).map(|i| format!("#{i}")).unwrap_or_else(|| hex::encode(&h[..4]))).collect()
        };
        if tree_set != model_hashes {
            return Err(violation("C20", "tree-differs-from-model", format!("tree {:?} vs model {:?}", name(&tree_set, self), name(&model_hashes, self))));
        }
        if bk.cache_keys != model_hashes {
            let leaked: BTreeSet<Hash32> = bk.cache_keys.difference(&model_hashes).copied().collect();
            let dangling: BTreeSet<Hash32> = model_hashes.difference(&bk.cache_keys).copied().collect();
            return Err(violation(
                "C20",
                if !leaked.is_empty() { "block-body-leaked" } else { "block-body-missing" },
                format!("block bodies in stable memory: leaked {:?}, missing {:?}", name(&leaked, self), name(&dangling, self)),
            ));
        }
        for (what, keys) in [("added", &bk.added_keys), ("removed", &bk.removed_keys)] {
            if *keys != model_hashes {
                let leaked: BTreeSet<Hash32> = keys.difference(&model_hashes).copied().collect();
                let dangling: BTreeSet<Hash32> = model_hashes.difference(keys).copied().collect();
                return Err(violation(
                    "C20",
                    if !leaked.is_empty() { "address-delta-leaked" } else { "address-delta-missing" },
                    format!("per-block {what}-outpoints: leaked {:?}, missing {:?}", name(&leaked, self), name(&dangling, self)),
                ));
            }
        }
        // reference counts
        let mut expected: BTreeMap<OutP, u64> = BTreeMap::new();
        for id in self.tree.nodes.keys() {
            for (op, n) in &self.block(*id).refs {
                *expected.entry(op.clone()).or_insert(0) += *n as u64;
            }
        }
        if bk.tx_out_counts != expected {
            let leaked = bk.tx_out_counts.keys().filter(|k| !expected.contains_key(*k)).count();
            let missing = expected.keys().filter(|k| !bk.tx_out_counts.contains_key(*k)).count();
            let wrong = expected
                .iter()
                .filter(|(k, v)| bk.tx_out_counts.get(*k).map(|c| c != *v).unwrap_or(false))
                .count();
            return Err(violation(
                "C20",
                if leaked > 0 { "tx-out-leaked" } else if missing > 0 { "tx-out-missing" } else { "tx-out-count-wrong" },
                format!(
                    "cached transaction outputs: {} entries, model requires {}; {leaked} leaked, {missing} missing, {wrong} with a wrong reference count",
                    bk.tx_out_counts.len(),
                    expected.len()
                ),
            ));
        }
        // tip depths
        let mut want: Vec<u64> = self.tree.leaves().iter().map(|l| self.tree.path_to(*l).len() as u64).collect();
        want.sort();
        let mut got = bk.tip_depths.clone();
        got.sort();
        if got != want {
            return Err(violation("C20", "tip-depths-stale", format!("cached tip depths {:?}, tree has {:?}", got, want)));
        }
        // announced headers
        let model_ann: BTreeMap<Hash32, u32> = self.announced.iter().map(|(h, (ht, _))| (*h, *ht)).collect();
        if bk.announced != model_ann {
            let leaked = bk.announced.keys().filter(|k| !model_ann.contains_key(*k)).count();
            let missing = model_ann.keys().filter(|k| !bk.announced.contains_key(*k)).count();
            return Err(violation(
                "C20",
                if leaked > 0 { "announced-header-leaked" } else if missing > 0 { "announced-header-missing" } else { "announced-header-height-wrong" },
                format!(
                    "announced headers: canister {} (heights {:?}), model {} (heights {:?}); anchor height {}",
                    bk.announced.len(),
                    bk.announced.values().collect::<Vec<_>>(),
                    model_ann.len(),
                    model_ann.values().collect::<Vec<_>>(),
                    self.anchor_height()
                ),
            ));
        }
        let mut by_height: BTreeMap<u32, BTreeSet<Hash32>> = BTreeMap::new();
        for (h, ht) in &model_ann {
            by_height.entry(*ht).or_default().insert(*h);
        }
        if bk.announced_by_height.as_ref().map(|m| *m != by_height).unwrap_or(false) {
            return Err(violation("C20", "announced-height-index-inconsistent", "height index of announced headers differs from the hash index".into()));
        }
        let ah = self.anchor_height();
        if model_ann.values().any(|h| *h <= ah) {
            return Err(violation("C20", "announced-header-below-stable-height", "an announced header at or below the stable height survives".into()));
        }
        if !model_ann.is_empty() {
            self.stats.probe("announced_headers_held");
        }
        Ok(())
    }
}
