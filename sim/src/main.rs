//! btcsim — deterministic simulation with fault injection for dfinity/bitcoin-canister.
//!
//!   btcsim check <Cxx> [--tier quick|thorough] [--runs N] [--time-box SECS] [--workers N]
//!   btcsim replay <file>
//!   btcsim one <Cxx> <seed> [--thorough]        (debug: run one seed, print the outcome)
//!   btcsim selftest-determinism [--seeds N]
//!
//! Exit codes: 0 held / only known findings; 1 violation; 2 harness error.

mod bookkeeping;
mod canister;
mod client;
mod gen;
mod known;
mod model;
mod net;
mod rng;
mod rules;
mod run;
mod shrink;
mod sim;
mod step;
mod trace;
mod views;
mod watchdog_sim;

use rng::derive_seed;
use run::RunOutcome;
use serde_json::json;
use std::collections::{BTreeMap, BTreeSet};
use std::io::Write;
use std::sync::atomic::{AtomicBool, AtomicU64, Ordering};
use std::sync::{mpsc, Arc, Mutex};
use std::time::{Duration, Instant};
use trace::*;

pub const DEFAULT_SEED: u64 = 0x0B17_C0DE;
const STACK: usize = 512 << 20;

static REPORT_FD: AtomicU64 = AtomicU64::new(1);

/// Re-points fd 1 to /dev/null (the canister prints on every step) and keeps a dup for reports.
fn silence_stdout() {
    unsafe {
        let keep = libc::dup(1);
        if keep >= 0 {
            let devnull = libc::open(b"/dev/null\0".as_ptr() as *const libc::c_char, libc::O_WRONLY);
            if devnull >= 0 {
                libc::dup2(devnull, 1);
                libc::close(devnull);
                REPORT_FD.store(keep as u64, Ordering::SeqCst);
            }
        }
    }
}

pub fn report(line: &str) {
    let fd = REPORT_FD.load(Ordering::SeqCst) as i32;
    let mut s = line.to_string();
    s.push('\n');
    unsafe {
        libc::write(fd, s.as_ptr() as *const libc::c_void, s.len());
    }
}

/// Runs `f` on a fresh thread (fresh thread-locals = a pristine canister).
pub fn on_fresh_thread<T: Send + 'static>(f: impl FnOnce() -> T + Send + 'static) -> Result<T, String> {
    std::thread::Builder::new()
        .stack_size(STACK)
        .spawn(move || {
            canister::install_quiet_panic_hook();
            f()
        })
        .map_err(|e| e.to_string())?
        .join()
        .map_err(|_| format!("simulator panicked: {}", canister::take_last_panic()))
}

use known::verif_dir;

use known::{load_known_findings, matches_known, KnownFinding};

struct Args {
    cmd: String,
    pos: Vec<String>,
    opts: BTreeMap<String, String>,
}

fn parse_args() -> Args {
    let mut it = std::env::args().skip(1);
    let cmd = it.next().unwrap_or_default();
    let mut pos = vec![];
    let mut opts = BTreeMap::new();
    let rest: Vec<String> = it.collect();
    let mut i = 0;
    while i < rest.len() {
        if let Some(k) = rest[i].strip_prefix("--") {
            if i + 1 < rest.len() && !rest[i + 1].starts_with("--") {
                opts.insert(k.to_string(), rest[i + 1].clone());
                i += 2;
            } else {
                opts.insert(k.to_string(), "true".into());
                i += 1;
            }
        } else {
            pos.push(rest[i].clone());
            i += 1;
        }
    }
    Args { cmd, pos, opts }
}

fn env_seed() -> u64 {
    std::env::var("VERIF_SEED")
        .ok()
        .and_then(|s| {
            let s = s.trim();
            if let Some(h) = s.strip_prefix("0x") {
                u64::from_str_radix(h, 16).ok()
            } else {
                s.parse::<u64>().ok().or_else(|| s.parse::<i64>().ok().map(|x| x as u64))
            }
        })
        .unwrap_or(DEFAULT_SEED)
}

fn budget_for(profile: &str, thorough: bool) -> (u64, u64) {
    // (number of runs, time box seconds). The number of runs is fixed per tier so that the set
    // of seeds explored does not depend on the speed of the machine; the time box is a safety
    // net only (quick ~ 1 minute on 16 cores, thorough ~ 10-15 minutes).
    let q: u64 = match profile {
        "C01" => 600,
        "C05" => 1000,
        "C04" | "C07" => 4000,
        "C08" => 1500,
        "C09" => 2000,
        "C11" => 1500,
        "C17" => 20000,
        "C19" => 8000,
        "C20" => 5000,
        _ => 6000,
    };
    if thorough {
        (q * 10, 1500)
    } else {
        (q, 400)
    }
}

fn main() {
    let args = parse_args();
    silence_stdout();
    canister::install_quiet_panic_hook();
    let code = match args.cmd.as_str() {
        "check" => cmd_check(&args),
        "replay" => cmd_replay(&args),
        "one" => cmd_one(&args),
        "survey" => cmd_survey(&args),
        "digest" => {
            let profile = args.pos.first().cloned().unwrap_or_default();
            let seed: u64 = args.pos.get(1).and_then(|s| s.parse().ok()).unwrap_or(1);
            let o = run_profile_seed(profile, seed, false);
            report(&format!("DIGEST {:016x} {}", o.log_digest, o.violation.is_some()));
            0
        }
        "selftest-determinism" => cmd_selftest(&args),
        _ => {
            report("usage: btcsim check <Cxx> [--tier quick|thorough] | replay <file> | one <Cxx> <seed> | selftest-determinism");
            2
        }
    };
    std::process::exit(code);
}

fn run_profile_seed(profile: String, seed: u64, thorough: bool) -> RunOutcome {
    if profile == "C17" {
        return match on_fresh_thread(move || watchdog_sim::run_generated(seed, thorough)) {
            Ok(o) => o,
            Err(e) => RunOutcome {
                harness_error: Some(e),
                ..Default::default()
            },
        };
    }
    if profile == "C08" && seed % 16 == 0 {
        // one run in 16 is an exhaustive family: all pause sets inside one small block
        if let Ok(Some(o)) = on_fresh_thread(move || run::run_c08_exhaustive(seed, thorough)) {
            return o;
        }
    }
    match on_fresh_thread(move || run::run_generated(&profile, seed, thorough)) {
        Ok(o) => o,
        Err(e) => RunOutcome {
            harness_error: Some(e),
            ..Default::default()
        },
    }
}

pub fn replay_trace(cfg: RunConfig, events: Vec<Event>) -> RunOutcome {
    if cfg.profile == "C17" {
        return match on_fresh_thread(move || watchdog_sim::run_trace(cfg, events)) {
            Ok(o) => o,
            Err(e) => RunOutcome {
                harness_error: Some(e),
                ..Default::default()
            },
        };
    }
    match on_fresh_thread(move || run::run_trace(cfg, events)) {
        Ok(o) => o,
        Err(e) => RunOutcome {
            harness_error: Some(e),
            ..Default::default()
        },
    }
}

fn cmd_one(args: &Args) -> i32 {
    let profile = args.pos.first().cloned().unwrap_or_default();
    let seed: u64 = args.pos.get(1).and_then(|s| s.parse().ok()).unwrap_or(1);
    let thorough = args.opts.contains_key("thorough");
    let o = run_profile_seed(profile, seed, thorough);
    report(&format!(
        "seed {seed}: events {} applied, digest {:016x}, nontrivial {}, violation {:?}, harness_error {:?}",
        o.applied_events, o.log_digest, o.nontrivial, o.violation, o.harness_error
    ));
    report(&format!("config {:?}", o.config));
    report(&format!("probes {:?}", o.stats.probes));
    report(&format!("faults {:?}", o.stats.faults));
    report(&format!("events {:?}", o.stats.events_by_kind));
    report(&format!("wall_us {:?}", o.stats.wall_us));
    if args.opts.contains_key("trace") {
        for (i, e) in o.events.iter().enumerate() {
            report(&format!("  {i}: {}", serde_json::to_string(e).unwrap()));
        }
    }
    if o.harness_error.is_some() {
        2
    } else if o.violation.is_some() {
        1
    } else {
        0
    }
}

/// Debug aid: histogram of violation kinds over N seeds (no shrinking, no replay files).
fn cmd_survey(args: &Args) -> i32 {
    let profile = args.pos.first().cloned().unwrap_or_default();
    let n: u64 = args.opts.get("runs").and_then(|s| s.parse().ok()).unwrap_or(200);
    let thorough = args.opts.contains_key("thorough");
    let master = env_seed();
    let next = Arc::new(AtomicU64::new(0));
    let out: Arc<Mutex<BTreeMap<String, (u64, u64, String)>>> = Arc::new(Mutex::new(BTreeMap::new()));
    let nontrivial = Arc::new(AtomicU64::new(0));
    let mut hs = vec![];
    for _ in 0..16 {
        let next = next.clone();
        let out = out.clone();
        let profile = profile.clone();
        let nontrivial = nontrivial.clone();
        hs.push(std::thread::spawn(move || loop {
            let i = next.fetch_add(1, Ordering::SeqCst);
            if i >= n {
                break;
            }
            let seed = derive_seed(master, i);
            let o = run_profile_seed(profile.clone(), seed, thorough);
            if o.nontrivial {
                nontrivial.fetch_add(1, Ordering::SeqCst);
            }
            let key = match (&o.harness_error, &o.violation) {
                (Some(e), _) => format!("HARNESS {}", e.chars().take(120).collect::<String>()),
                (_, Some(v)) => format!("{} {}", v.property, v.kind),
                _ => "ok".to_string(),
            };
            let detail = o.violation.as_ref().map(|v| v.detail.clone()).unwrap_or_default();
            let mut m = out.lock().unwrap();
            let e = m.entry(key).or_insert((0, seed, detail));
            e.0 += 1;
        }));
    }
    for h in hs {
        let _ = h.join();
    }
    report(&format!("survey {profile}: {n} runs, {} non-trivial", nontrivial.load(Ordering::SeqCst)));
    for (k, (c, seed, detail)) in out.lock().unwrap().iter() {
        report(&format!("  {c:5}  {k}   e.g. seed {seed}: {}", detail.chars().take(300).collect::<String>()));
    }
    0
}

fn cmd_replay(args: &Args) -> i32 {
    let Some(path) = args.pos.first() else {
        report("replay: missing file");
        return 2;
    };
    let s = match std::fs::read_to_string(path) {
        Ok(s) => s,
        Err(e) => {
            report(&format!("replay: cannot read {path}: {e}"));
            return 2;
        }
    };
    let rf: ReplayFile = match serde_json::from_str(&s) {
        Ok(r) => r,
        Err(e) => {
            report(&format!("replay: cannot parse {path}: {e}"));
            return 2;
        }
    };
    let o = replay_trace(rf.config.clone(), rf.events.clone());
    if let Some(e) = o.harness_error {
        report(&format!("HARNESS-ERROR {e}"));
        return 2;
    }
    let mut violation = o.violation.clone();
    if let Some(v) = violation.as_mut() {
        if rf.property == "C09" && v.kind.starts_with("after-upgrade:") {
            // attribution to C09: the same trace without upgrades must be clean
            let twin_events: Vec<Event> = rf.events.iter().filter(|e| !matches!(e, Event::Upgrade { .. })).cloned().collect();
            let twin = replay_trace(rf.config.clone(), twin_events);
            if twin.violation.is_none() && twin.harness_error.is_none() {
                v.property = "C09".into();
            }
        }
    }
    match violation {
        Some(v) => {
            report(&format!(
                "REPLAYED property={} kind={} at_event={} digest={:016x}",
                v.property, v.kind, v.at_event, o.log_digest
            ));
            report(&format!("  detail: {}", v.detail));
            if v.property == rf.violation.property && v.kind == rf.violation.kind {
                report(&format!("VIOLATION property={} replay={}", v.property, path));
                1
            } else {
                report("replay produced a different violation than recorded");
                2
            }
        }
        None => {
            report(&format!("NOT-REPRODUCED digest={:016x}", o.log_digest));
            0
        }
    }
}

fn cmd_selftest(args: &Args) -> i32 {
    let n: u64 = args.opts.get("seeds").and_then(|s| s.parse().ok()).unwrap_or(32);
    let profiles = [
        "C01", "C02", "C03", "C04", "C05", "C06", "C07", "C08", "C09", "C10", "C11", "C13", "C14", "C15", "C16", "C17", "C19", "C20",
    ];
    let master = env_seed();
    let mut bad = 0;
    let workers_a = 1usize;
    let workers_b = 16usize;
    for p in profiles {
        let a = run_batch_digests(p, master, n, workers_a);
        let b = run_batch_digests(p, master, n, workers_b);
        let c = run_batch_digests(p, master, n, workers_b);
        // a few runs again in a fresh process each
        let mut cross_bad = vec![];
        for i in 0..n.min(4) {
            let seed = derive_seed(master, i);
            let exe = std::env::current_exe().unwrap();
            let out = std::process::Command::new(exe).arg("digest").arg(p).arg(seed.to_string()).output();
            let s = out.map(|o| String::from_utf8_lossy(&o.stdout).to_string()).unwrap_or_default();
            let want = a.get(&i).map(|(d, v)| format!("DIGEST {:016x} {}", d, v)).unwrap_or_default();
            if !s.contains(&want) {
                cross_bad.push(i);
            }
        }
        if !cross_bad.is_empty() {
            bad += 1;
            report(&format!("DETERMINISM-FAILURE profile={p} fresh-process digests differ for run indices {:?}", cross_bad));
        }
        if a != b || b != c {
            bad += 1;
            let diff: Vec<u64> = (0..n).filter(|i| a.get(i) != b.get(i) || b.get(i) != c.get(i)).collect();
            report(&format!("DETERMINISM-FAILURE profile={p} run indices {:?}", diff));
        } else {
            report(&format!("determinism ok profile={p} runs={n} (1 worker == 16 workers == repeat; first {} also in a fresh process each)", n.min(4)));
        }
    }
    if bad > 0 {
        2
    } else {
        0
    }
}

fn run_batch_digests(profile: &str, master: u64, n: u64, workers: usize) -> BTreeMap<u64, (u64, bool)> {
    let next = Arc::new(AtomicU64::new(0));
    let out = Arc::new(Mutex::new(BTreeMap::new()));
    let mut hs = vec![];
    for _ in 0..workers {
        let next = next.clone();
        let out = out.clone();
        let profile = profile.to_string();
        hs.push(std::thread::spawn(move || loop {
            let i = next.fetch_add(1, Ordering::SeqCst);
            if i >= n {
                break;
            }
            let o = run_profile_seed(profile.clone(), derive_seed(master, i), false);
            out.lock().unwrap().insert(i, (o.log_digest, o.violation.is_some()));
        }));
    }
    for h in hs {
        let _ = h.join();
    }
    let m = out.lock().unwrap().clone();
    m
}

fn cmd_check(args: &Args) -> i32 {
    let Some(profile) = args.pos.first().cloned() else {
        report("check: missing property id");
        return 2;
    };
    let tier = args
        .opts
        .get("tier")
        .cloned()
        .or_else(|| std::env::var("VERIF_TIER").ok())
        .unwrap_or_else(|| "quick".into());
    let thorough = tier == "thorough";
    let master = env_seed();
    let (def_runs, def_box) = budget_for(&profile, thorough);
    let max_runs: u64 = args.opts.get("runs").and_then(|s| s.parse().ok()).unwrap_or(def_runs);
    let time_box: u64 = args.opts.get("time-box").and_then(|s| s.parse().ok()).unwrap_or(def_box);
    let workers: usize = args.opts.get("workers").and_then(|s| s.parse().ok()).unwrap_or(16);
    let started = Instant::now();
    let known = load_known_findings();

    let next = Arc::new(AtomicU64::new(0));
    let stop = Arc::new(AtomicBool::new(false));
    let (tx, rx) = mpsc::channel::<(u64, u64, RunOutcome)>();
    let mut hs = vec![];
    for _ in 0..workers {
        let next = next.clone();
        let stop = stop.clone();
        let tx = tx.clone();
        let profile = profile.clone();
        hs.push(std::thread::spawn(move || loop {
            if stop.load(Ordering::SeqCst) {
                break;
            }
            let i = next.fetch_add(1, Ordering::SeqCst);
            if i >= max_runs {
                break;
            }
            let seed = derive_seed(master, i);
            let o = run_profile_seed(profile.clone(), seed, thorough);
            if tx.send((i, seed, o)).is_err() {
                break;
            }
        }));
    }
    drop(tx);

    let mut agg = Aggregate::default();
    let mut violations: Vec<(u64, u64, RunOutcome)> = vec![];
    let mut harness_errors: Vec<String> = vec![];
    loop {
        match rx.recv_timeout(Duration::from_millis(200)) {
            Ok((i, seed, o)) => {
                if let Some(e) = &o.harness_error {
                    harness_errors.push(format!("run {i} seed {seed}: {e}"));
                }
                agg.add(i, seed, &o);
                if let Some(v) = &o.violation {
                    if v.property == "HARNESS" {
                        harness_errors.push(format!("run {i} seed {seed}: {}: {}", v.kind, v.detail));
                        continue;
                    }
                    // only the profile's own property counts (C09 handles attribution itself)
                    if v.property == profile {
                        violations.push((i, seed, o));
                        if violations.len() >= 6 {
                            stop.store(true, Ordering::SeqCst);
                        }
                    } else if profile == "C09" && v.kind.starts_with("after-upgrade:") {
                        violations.push((i, seed, o));
                        if violations.len() >= 6 {
                            stop.store(true, Ordering::SeqCst);
                        }
                    } else {
                        agg.foreign_violations += 1;
                    }
                }
            }
            Err(mpsc::RecvTimeoutError::Timeout) => {}
            Err(mpsc::RecvTimeoutError::Disconnected) => break,
        }
        if started.elapsed().as_secs() >= time_box {
            stop.store(true, Ordering::SeqCst);
        }
    }
    for h in hs {
        let _ = h.join();
    }

    // ---- triage violations: attribute, shrink, replay in a fresh process ----
    let mut exit = 0;
    let mut reported_known: BTreeSet<String> = BTreeSet::new();
    let mut n_violations = 0;
    let mut seen_kinds: BTreeSet<String> = BTreeSet::new();
    violations.sort_by_key(|(i, _, _)| *i);
    for (i, seed, o) in violations {
        let mut v = o.violation.clone().unwrap();
        let cfg = o.config.clone().unwrap();
        let mut events = o.events.clone();
        if profile == "C09" && v.kind.starts_with("after-upgrade:") {
            // attribute to C09 only if the same trace without upgrades does not show it
            let twin_events: Vec<Event> = events.iter().filter(|e| !matches!(e, Event::Upgrade { .. })).cloned().collect();
            let twin = replay_trace(cfg.clone(), twin_events);
            if twin.violation.is_some() || twin.harness_error.is_some() {
                agg.foreign_violations += 1;
                continue;
            }
            v.property = "C09".into();
        }
        if !seen_kinds.insert(v.kind.clone()) && n_violations >= 2 {
            continue;
        }
        let shrink_box = if thorough { 120 } else { 25 };
        let (min_events, min_v) = shrink::shrink(&cfg, &events, &v, Duration::from_secs(shrink_box));
        events = min_events;
        let v = min_v;
        if let Some(k) = matches_known(&v, &known) {
            if reported_known.insert(k.id.clone()) {
                report(&format!("KNOWN-FINDING: property={} {} [{}] (run {i}, seed {seed}: {})", k.property, k.title, k.id, v.detail));
            }
            agg.known_findings_seen.insert(k.id.clone());
            continue;
        }
        // write the replay file
        let dir = verif_dir().join("replays");
        let _ = std::fs::create_dir_all(&dir);
        let mut h = rng::Fnv::default();
        h.write_str(&serde_json::to_string(&events).unwrap());
        let path = dir.join(format!("{}-{}-{:08x}.json", v.property, seed, h.0 as u32));
        let rf = ReplayFile {
            property: v.property.clone(),
            config: cfg.clone(),
            events: events.clone(),
            violation: v.clone(),
            log_digest: String::new(),
            note: format!("run {i} of batch seed {master}; minimised from {} events", o.events.len()),
        };
        if let Err(e) = std::fs::write(&path, serde_json::to_string_pretty(&rf).unwrap()) {
            report(&format!("HARNESS-ERROR cannot write replay file: {e}"));
            return 2;
        }
        // replay in a fresh process
        let exe = std::env::current_exe().unwrap();
        let outp = std::process::Command::new(exe).arg("replay").arg(&path).output();
        let reproduced = match &outp {
            Ok(o) => String::from_utf8_lossy(&o.stdout).contains(&format!("REPLAYED property={} kind={}", v.property, v.kind)),
            Err(_) => false,
        };
        if !reproduced {
            report(&format!(
                "HARNESS-ERROR replay of {} in a fresh process did not reproduce {}:{} — not reported as a violation",
                path.display(),
                v.property,
                v.kind
            ));
            harness_errors.push("replay mismatch".into());
            continue;
        }
        n_violations += 1;
        report(&format!("  violation kind={} at_event={} detail: {}", v.kind, v.at_event, v.detail));
        report(&format!("VIOLATION property={} replay={}", v.property, path.display()));
        exit = 1;
    }

    for (id, (title, detail, i, seed)) in &agg.known_examples {
        if reported_known.insert(id.clone()) {
            let prop = known.iter().find(|k| &k.id == id).map(|k| k.property.clone()).unwrap_or_default();
            report(&format!("KNOWN-FINDING: property={prop} {title} [{id}] (run {i}, seed {seed}: {})", detail.chars().take(400).collect::<String>()));
        }
    }

    // ---- evidence ----
    let wall = started.elapsed().as_secs_f64();
    if let Err(e) = write_evidence(&profile, &tier, master, &agg, wall, n_violations) {
        report(&format!("HARNESS-ERROR evidence: {e}"));
        return 2;
    }
    report(&format!(
        "{profile} {tier}: {} runs ({} non-trivial distinct), {} events, {} oracle comparisons, {} abstract states, {:.1}s, violations {}, known findings {:?}, foreign {}",
        agg.runs,
        agg.fingerprints.len(),
        agg.events_total,
        agg.oracle_comparisons,
        agg.abstract_states.len(),
        wall,
        n_violations,
        agg.known_findings_seen,
        agg.foreign_violations
    ));
    if !harness_errors.is_empty() {
        for e in harness_errors.iter().take(5) {
            report(&format!("HARNESS-ERROR {e}"));
        }
        return 2;
    }
    if agg.runs == 0 {
        report("HARNESS-ERROR no runs completed");
        return 2;
    }
    exit
}

#[derive(Default)]
struct Aggregate {
    runs: u64,
    events_total: u64,
    events_by_kind: BTreeMap<String, u64>,
    faults: BTreeMap<String, u64>,
    probes: BTreeMap<String, u64>,
    oracle_comparisons: u64,
    simulated_seconds: u64,
    abstract_states: BTreeSet<u64>,
    abstract_transitions: BTreeSet<u64>,
    fingerprints: BTreeSet<u64>,
    samples: Vec<serde_json::Value>,
    networks: BTreeMap<String, u64>,
    foreign_violations: u64,
    desynced_runs: u64,
    known_findings_seen: BTreeSet<String>,
    known_examples: BTreeMap<String, (String, String, u64, u64)>,
}

impl Aggregate {
    fn add(&mut self, i: u64, seed: u64, o: &RunOutcome) {
        self.runs += 1;
        self.events_total += o.applied_events as u64;
        for (k, v) in &o.stats.events_by_kind {
            *self.events_by_kind.entry(k.clone()).or_insert(0) += v;
        }
        for (k, v) in &o.stats.faults {
            *self.faults.entry(k.clone()).or_insert(0) += v;
        }
        for (k, v) in &o.stats.probes {
            *self.probes.entry(k.clone()).or_insert(0) += v;
        }
        self.oracle_comparisons += o.stats.oracle_comparisons;
        self.simulated_seconds += o.stats.simulated_seconds;
        self.abstract_states.extend(o.stats.abstract_states.iter().copied());
        self.abstract_transitions.extend(o.stats.abstract_transitions.iter().copied());
        if o.desynced {
            self.desynced_runs += 1;
        }
        for (id, (title, detail)) in &o.known_hits {
            self.known_findings_seen.insert(id.clone());
            self.known_examples.entry(id.clone()).or_insert((title.clone(), detail.clone(), i, seed));
        }
        if let Some(c) = &o.config {
            *self.networks.entry(c.network.clone()).or_insert(0) += 1;
        }
        if o.nontrivial {
            let new = self.fingerprints.insert(o.fingerprint);
            if new && self.samples.len() < 3 {
                let evs: Vec<serde_json::Value> = o.events.iter().take(60).map(|e| serde_json::to_value(e).unwrap()).collect();
                self.samples.push(json!({
                    "run_index": i,
                    "seed": seed,
                    "config": o.config,
                    "events_total": o.events.len(),
                    "first_events": evs,
                    "probes": o.stats.probes,
                    "faults": o.stats.faults,
                }));
            }
        }
    }
}

fn rule_for(profile: &str) -> &'static str {
    match profile {
        "C01" | "C02" | "C04" | "C05" => "one case = one seeded run (swarm configuration + event trace: mine/heartbeat/deliver/set_config/upgrade/time with adapter faults) with the snapshot oracle evaluated after every event; non-trivial = at least one block admitted through the real heartbeat path and >= 4 distinct abstract states; distinct = distinct fingerprint (hash of the sequence of applied event kinds and abstract states)",
        "C03" => "one case = one seeded run; non-trivial = the anchor advanced at least once (stability rule evaluated in both directions at every message); distinct = distinct fingerprint of event kinds and abstract states",
        "C06" => "one case = one seeded run with pagination sessions; non-trivial = a session of >= 2 pages completed with >= 1 state-changing event interleaved, or a page token was invalidated by stabilisation; distinct = distinct fingerprint",
        "C07" => "one case = one seeded run; non-trivial = a requested header range straddled the stable boundary or was asked while ingestion was paused; distinct = distinct fingerprint",
        "C08" => "one case = one seeded run with adversarial per-round budgets; non-trivial = ingestion of a stabilising block paused at least once; distinct = distinct fingerprint",
        "C09" => "one case = one seeded run with upgrades at message boundaries; non-trivial = at least one upgrade and one admitted block; distinct = distinct fingerprint",
        "C10" | "C11" => "one case = one seeded run with an adversarial block source; non-trivial = at least one offered block or announced header was rejected for a known reason; distinct = distinct fingerprint",
        "C13" => "one case = one seeded run with withheld replies, pages, rejects; non-trivial = a paged reply, a reject, an explicit page script or overlapping heartbeats occurred; distinct = distinct fingerprint",
        "C14" => "one case = one seeded run with config toggles and announced headers; non-trivial = the gate was closed (flag, sync rule) or a wrong network was named at least once; distinct = distinct fingerprint",
        "C15" => "one case = one seeded run with fee-paying transactions; non-trivial = a request was answered from a non-empty fee window; distinct = distinct fingerprint",
        "C16" => "one case = one seeded run of paid calls; non-trivial = a call below the maximum, a request-level error or a capped variable fee occurred; distinct = distinct fingerprint",
        "C17" => "one case = one seeded run of watchdog rounds against stub explorers; non-trivial = at least one round with a failed explorer and one with a quorum; distinct = distinct fingerprint of (round outcomes)",
        "C19" => "one case = one seeded run of send_transaction calls; non-trivial = at least one payload forwarded or refused as malformed; distinct = distinct fingerprint",
        "C20" => "one case = one seeded run; non-trivial = an anchor advance discarded a fork or announced headers were held; distinct = distinct fingerprint",
        _ => "one case = one seeded run",
    }
}

fn write_evidence(profile: &str, tier: &str, seed: u64, agg: &Aggregate, wall: f64, violations: u64) -> Result<(), String> {
    let dir = verif_dir().join("evidence");
    std::fs::create_dir_all(&dir).map_err(|e| e.to_string())?;
    let runs_per_hour = if wall > 0.0 { agg.runs as f64 * 3600.0 / wall } else { 0.0 };
    let expected: &[&str] = match profile {
        "C01" => &["prefix_pair_long_owns_utxos", "real_1000_page_crossed", "multi_page_answer", "anchor_advance_discards_fork", "upgrade_while_ingestion_paused"],
        "C02" | "C04" | "C05" => &["anchor_advance_discards_fork", "ingestion_paused", "blocks_admitted"],
        "C03" => &["anchor_advance", "anchor_advance_discards_fork", "ingestion_paused"],
        "C06" => &["session_interleaved_completed", "page_token_invalidated", "session_with_min_confirmations", "arbitrary_page_error", "arbitrary_page_answered"],
        "C07" => &["header_range_straddles_boundary", "ingestion_paused", "upgrade_while_ingestion_paused"],
        "C08" => &["ingestion_paused", "paused_twice_in_one_block", "twin_compared"],
        "C09" => &["upgrade_with_call_in_flight", "upgrade_with_partial_pages", "upgrade_with_complete_response", "upgrade_while_ingestion_paused", "fee_window_nonempty"],
        "C10" | "C11" => &["reject_duplicate", "reject_unknown-parent", "reject_parent-not-unstable", "reject_undecodable", "reject_invalid-header", "reject_invalid-body", "next_header_invalid", "next_header_undecodable"],
        "C13" => &["paged_reply", "pages_reassembled", "partial_with_zero_follow_ups", "heartbeat_while_call_outstanding", "three_or_more_overlapping_heartbeats", "upgrade_with_partial_pages", "quiesced"],
        "C14" => &["sync_gate_closed", "api_disabled", "gate_wrong_network", "send_transaction_exempt_from_sync_rule"],
        "C15" => &["fee_window_nonempty", "fee_window_empty_previous_kept", "fee_window_10000_cut"],
        "C16" => &["paid_below_maximum", "paid_request_level_error", "paid_variable_part_capped", "paid_with_cdk_cost_default_fees"],
        "C17" => &["round_with_failed_explorer", "round_with_quorum", "round_not_enough_data", "flag_changed_by_watchdog", "permutation_checked"],
        "C19" => &["send_tx_forwarded", "send_tx_malformed_refused", "send_tx_guard_refused", "send_tx_internal_reject"],
        "C20" => &["anchor_advance_discards_fork", "announced_headers_held", "upgrade_with_call_in_flight"],
        _ => &[],
    };
    let zero_probes: Vec<String> = expected.iter().filter(|k| agg.probes.get(**k).copied().unwrap_or(0) == 0).map(|k| k.to_string()).collect();
    for z in &zero_probes {
        report(&format!("WARNING: probe '{z}' was never hit in this batch"));
    }
    let mut samples = agg.samples.clone();
    if samples.is_empty() {
        samples.push(json!({"note": "no non-trivial run in this batch"}));
    }
    let ev = json!({
        "property_id": profile,
        "tier": tier,
        "seed": seed as i64,
        "level": "exploration",
        "coverage": {
            "evaluations": agg.runs,
            "distinct_nontrivial": agg.fingerprints.len(),
            "rule": rule_for(profile),
            "samples": samples,
            "events_total": agg.events_total,
            "events_by_kind": agg.events_by_kind,
            "faults_fired_by_kind": agg.faults,
            "probes": agg.probes,
            "probes_stuck_at_zero": zero_probes,
            "distinct_abstract_states": agg.abstract_states.len(),
            "distinct_transitions": agg.abstract_transitions.len(),
            "abstract_state_measure": "(unstable tree shape as multiset of (relative height, #children), stable height mod 8, stored-response state, ingesting flag, #suspended heartbeats, api/sync/syncing flags, #announced headers capped at 4)",
            "simulated_seconds": agg.simulated_seconds,
            "runs_per_hour": runs_per_hour,
            "oracle_comparisons": agg.oracle_comparisons,
            "runs_by_network": agg.networks,
            "runs_aborted_on_model_desync": agg.desynced_runs,
            "violations_of_other_properties_seen": agg.foreign_violations,
            "known_findings_seen": agg.known_findings_seen,
            "components": {
                "real_code": ["ic-btc-canister (library, native)", "ic-btc-validation", "ic-btc-types", "ic-btc-interface", "ic-stable-structures on DefaultMemoryImpl", "watchdog + ic-http mock transport (C17 only)", "ic-cdk-bitcoin-canister cost_* (C16 only)"],
                "stubs": ["IC scheduler / heartbeat timer / callbacks (the simulator)", "instruction counter and cycles ledger (hooked mock runtime)", "IC time (mock_time)", "Bitcoin network BtcNet", "bitcoin adapter / management canister", "client canisters", "block explorers"],
                "not_simulated": ["candid (de)serialisation at the canister boundary", "wasm execution, real ic0", "replica DTS and callback-trap cleanup", "/metrics endpoint"]
            },
            "exhaustive": false
        },
        "assumptions": [
            "one message = one uninterrupted native call; a trap = no effect (checked by state digest where the property demands it)",
            "rust-bitcoin consensus (de)serialisation, sha256d and address encoding are shared by model and code (trusted base)",
            "on testnet4/mainnet proof of work is synthetic (hook H6): target rules are checked, hash <= target is not",
            "seeded sampling: a clean batch is evidence, not proof"
        ],
        "wall_s": wall,
        "violations": violations
    });
    let path = dir.join(format!("{profile}.json"));
    let mut f = std::fs::File::create(&path).map_err(|e| e.to_string())?;
    f.write_all(serde_json::to_string_pretty(&ev).unwrap().as_bytes()).map_err(|e| e.to_string())?;
    Ok(())
}
