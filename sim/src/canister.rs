//! Thin driver around the *real* `ic-btc-canister` library: one function per IC message kind.
//! Every entry is wrapped in `catch_unwind` (a panic is a trap), the instruction counter is
//! reset at the start of every message (as the IC does) and the clock is the simulator's.

use ic_btc_canister::runtime::{self, verif_hooks as hooks, GetSuccessorsReply};
use ic_btc_canister::types::{GetSuccessorsRequest, GetSuccessorsResponse};
use ic_btc_interface::*;
use std::cell::RefCell;
use std::future::Future;
use std::panic::{catch_unwind, AssertUnwindSafe};
use std::pin::Pin;
use std::task::{Context, Poll, Waker};

thread_local! {
    static LAST_PANIC: RefCell<Option<String>> = const { RefCell::new(None) };
}

/// Installs a panic hook that records the message instead of printing it.
pub fn install_quiet_panic_hook() {
    std::panic::set_hook(Box::new(|info| {
        let msg = if let Some(s) = info.payload().downcast_ref::<&str>() {
            s.to_string()
        } else if let Some(s) = info.payload().downcast_ref::<String>() {
            s.clone()
        } else {
            "panic".to_string()
        };
        let loc = info
            .location()
            .map(|l| format!("{}:{}", l.file(), l.line()))
            .unwrap_or_default();
        if std::thread::current().name() == Some("main") {
            eprintln!("btcsim: harness panic: {} @ {}", msg, loc);
        }
        LAST_PANIC.with(|p| *p.borrow_mut() = Some(format!("{} @ {}", msg, loc)));
    }));
}

pub fn take_last_panic() -> String {
    LAST_PANIC
        .with(|p| p.borrow_mut().take())
        .unwrap_or_else(|| "panic (no message)".to_string())
}

/// A trap of a canister message, with the panic message.
#[derive(Clone, Debug, PartialEq, Eq)]
pub struct Trap(pub String);

fn guarded<R>(f: impl FnOnce() -> R) -> Result<R, Trap> {
    match catch_unwind(AssertUnwindSafe(f)) {
        Ok(r) => Ok(r),
        Err(_) => Err(Trap(take_last_panic())),
    }
}

/// Per-message instruction budget: the ingestion loop pauses at its `k`-th slice check
/// (`k = 0`: never). The counter starts at `base` for fee-related checks.
#[derive(Clone, Copy, Debug)]
pub struct Budget {
    pub pause_at: u64,
}

const SLICE_THRESHOLD: u64 = 1_000_000_000;

pub fn begin_message(budget: Budget, now_secs: u64, now_nanos_extra: u64) {
    if budget.pause_at == 0 {
        hooks::set_performance_counter(0);
        hooks::set_performance_counter_step(0);
    } else {
        hooks::set_performance_counter(SLICE_THRESHOLD - budget.pause_at);
        hooks::set_performance_counter_step(1);
    }
    runtime::mock_time::set_mock_time(Some(now_secs * 1_000_000_000 + now_nanos_extra));
}

/// Sets the raw instruction counter for a client call (fees depend on it).
pub fn begin_client_message(counter: u64, now_secs: u64) {
    hooks::set_performance_counter(counter);
    hooks::set_performance_counter_step(0);
    runtime::mock_time::set_mock_time(Some(now_secs * 1_000_000_000));
}

pub fn fresh_memory(bucket_pages: u16) {
    use ic_stable_structures::memory_manager::MemoryManager;
    use ic_stable_structures::DefaultMemoryImpl;
    ic_btc_canister::memory::with_memory_manager_mut(|m| {
        *m = MemoryManager::init_with_bucket_size(DefaultMemoryImpl::default(), bucket_pages)
    });
}

pub fn init(cfg: InitConfig) -> Result<(), Trap> {
    hooks::arm_transport(true);
    hooks::arm_send_transaction(true, None);
    hooks::clear_outbox();
    hooks::take_request_log();
    hooks::take_send_transaction_log();
    hooks::reset_cycles_accepted();
    hooks::set_msg_cycles_available(None);
    guarded(|| ic_btc_canister::init(cfg))
}

type HeartbeatFuture = Pin<Box<dyn Future<Output = ()>>>;

/// A canister task suspended at an outstanding inter-canister call.
pub struct Task {
    fut: HeartbeatFuture,
    pub ticket: u64,
}

pub enum Polled {
    Done,
    Suspended(Task),
}

fn poll_once(fut: &mut HeartbeatFuture) -> Result<bool, Trap> {
    let waker = Waker::noop();
    let mut cx = Context::from_waker(waker);
    match catch_unwind(AssertUnwindSafe(|| fut.as_mut().poll(&mut cx))) {
        Ok(Poll::Ready(())) => Ok(true),
        Ok(Poll::Pending) => Ok(false),
        Err(_) => Err(Trap(take_last_panic())),
    }
}

/// Starts a heartbeat message. Returns the suspended task if it made a call.
pub fn heartbeat(budget: Budget, now_secs: u64) -> Result<Polled, Trap> {
    begin_message(budget, now_secs, 0);
    let before: Vec<u64> = hooks::outbox().iter().map(|(t, _)| *t).collect();
    let mut fut: HeartbeatFuture = Box::pin(ic_btc_canister::heartbeat());
    match poll_once(&mut fut) {
        Ok(true) => Ok(Polled::Done),
        Ok(false) => {
            let ticket = hooks::outbox()
                .iter()
                .map(|(t, _)| *t)
                .find(|t| !before.contains(t))
                .expect("suspended heartbeat must have an outstanding call");
            Ok(Polled::Suspended(Task { fut, ticket }))
        }
        Err(t) => {
            // The future is poisoned; its heap would be rolled back on the IC.
            std::mem::forget(fut);
            Err(t)
        }
    }
}

pub fn outstanding_requests() -> Vec<(u64, GetSuccessorsRequest)> {
    hooks::outbox()
}

/// Delivers the reply to a suspended task (a new message: the callback).
pub fn deliver(
    mut task: Task,
    reply: Result<GetSuccessorsResponse, (u32, String)>,
    budget: Budget,
    now_secs: u64,
) -> Result<Polled, Trap> {
    begin_message(budget, now_secs, 1);
    let reply = match reply {
        Ok(r) => GetSuccessorsReply::Ok(r),
        Err((code, msg)) => GetSuccessorsReply::Err(reject_code(code), msg),
    };
    runtime::set_successors_response(reply);
    hooks::release(task.ticket);
    match poll_once(&mut task.fut) {
        Ok(true) => Ok(Polled::Done),
        Ok(false) => Ok(Polled::Suspended(task)), // must not happen: one await per heartbeat
        Err(t) => {
            std::mem::forget(task);
            Err(t)
        }
    }
}

fn reject_code(code: u32) -> ic_cdk::call::RejectCode {
    use ic_cdk::call::RejectCode::*;
    match code {
        1 => SysFatal,
        2 => SysTransient,
        3 => DestinationInvalid,
        4 => CanisterReject,
        5 => CanisterError,
        _ => SysUnknown,
    }
}

/// Upgrade: `pre_upgrade`, heap lost (in-flight tasks are forgotten, not dropped),
/// `post_upgrade(arg)`.
pub fn upgrade(tasks: Vec<Task>, arg: Option<SetConfigRequest>, now_secs: u64) -> Result<(), Trap> {
    begin_message(Budget { pause_at: 0 }, now_secs, 2);
    guarded(ic_btc_canister::pre_upgrade)?;
    for t in tasks {
        std::mem::forget(t);
    }
    hooks::clear_outbox();
    begin_message(Budget { pause_at: 0 }, now_secs, 3);
    guarded(|| ic_btc_canister::post_upgrade(arg))
}

pub fn set_config(req: SetConfigRequest) -> Result<(), Trap> {
    guarded(|| ic_btc_canister::set_config(req))
}

pub fn get_config() -> Result<Config, Trap> {
    guarded(ic_btc_canister::get_config)
}

pub fn get_blockchain_info() -> Result<BlockchainInfo, Trap> {
    guarded(ic_btc_canister::get_blockchain_info)
}

pub fn net_in_request(n: Network) -> NetworkInRequest {
    match n {
        Network::Mainnet => NetworkInRequest::Mainnet,
        Network::Testnet => NetworkInRequest::testnet,
        Network::Regtest => NetworkInRequest::Regtest,
    }
}

/// Both spellings the interface accepts for a network.
pub fn net_in_request_spellings(n: Network) -> [NetworkInRequest; 2] {
    match n {
        Network::Mainnet => [NetworkInRequest::Mainnet, NetworkInRequest::mainnet],
        Network::Testnet => [NetworkInRequest::Testnet, NetworkInRequest::testnet],
        Network::Regtest => [NetworkInRequest::Regtest, NetworkInRequest::regtest],
    }
}

pub type UtxosResult = Result<Result<GetUtxosResponse, GetUtxosError>, Trap>;

pub fn get_utxos_query(address: &str, net: Network, filter: Option<UtxosFilterInRequest>) -> UtxosResult {
    let req = GetUtxosRequest {
        address: address.to_string(),
        network: net_in_request(net),
        filter,
    };
    guarded(|| ic_btc_canister::get_utxos_query(req))
}

pub fn get_utxos_update(address: &str, net: Network, filter: Option<UtxosFilterInRequest>) -> UtxosResult {
    let req = GetUtxosRequest {
        address: address.to_string(),
        network: net_in_request(net),
        filter,
    };
    guarded(|| ic_btc_canister::get_utxos(req))
}

pub fn get_utxos_limit(
    address: &str,
    net: Network,
    filter: Option<UtxosFilterInRequest>,
    limit: usize,
) -> UtxosResult {
    let req = GetUtxosRequest {
        address: address.to_string(),
        network: net_in_request(net),
        filter,
    };
    guarded(|| ic_btc_canister::get_utxos_query_with_limit(req, limit))
}

pub type BalanceResult = Result<Result<Satoshi, GetBalanceError>, Trap>;

pub fn get_balance_query(address: &str, net: Network, min_conf: Option<u32>) -> BalanceResult {
    let req = GetBalanceRequest {
        address: address.to_string(),
        network: net_in_request(net),
        min_confirmations: min_conf,
    };
    guarded(|| ic_btc_canister::get_balance_query(req))
}

pub fn get_balance_update(address: &str, net: Network, min_conf: Option<u32>) -> BalanceResult {
    let req = GetBalanceRequest {
        address: address.to_string(),
        network: net_in_request(net),
        min_confirmations: min_conf,
    };
    guarded(|| ic_btc_canister::get_balance(req))
}

pub type HeadersResult = Result<Result<GetBlockHeadersResponse, GetBlockHeadersError>, Trap>;

pub fn get_block_headers(start: u32, end: Option<u32>, net: Network) -> HeadersResult {
    let req = GetBlockHeadersRequest {
        start_height: start,
        end_height: end,
        network: net_in_request(net),
    };
    guarded(|| ic_btc_canister::get_block_headers(req))
}

pub fn get_fee_percentiles(net: Network) -> Result<Vec<u64>, Trap> {
    let req = GetCurrentFeePercentilesRequest {
        network: net_in_request(net),
    };
    guarded(|| ic_btc_canister::get_current_fee_percentiles(req))
}

/// `send_transaction` completes within one message in the simulation (the internal call is
/// answered synchronously by the recorder seam).
pub fn send_transaction(tx: Vec<u8>, net: Network) -> Result<Result<(), SendTransactionError>, Trap> {
    let req = SendTransactionRequest {
        transaction: tx,
        network: net_in_request(net),
    };
    let mut fut: Pin<Box<dyn Future<Output = Result<(), SendTransactionError>>>> =
        Box::pin(ic_btc_canister::send_transaction(req));
    let waker = Waker::noop();
    let mut cx = Context::from_waker(waker);
    match catch_unwind(AssertUnwindSafe(|| fut.as_mut().poll(&mut cx))) {
        Ok(Poll::Ready(r)) => Ok(r),
        Ok(Poll::Pending) => panic!("send_transaction suspended: recorder seam not armed"),
        Err(_) => {
            std::mem::forget(fut);
            Err(Trap(take_last_panic()))
        }
    }
}

pub fn set_attached_cycles(c: Option<u128>) {
    hooks::set_msg_cycles_available(c);
}

pub fn cycles_accepted() -> u128 {
    hooks::cycles_accepted()
}

pub fn take_request_log() -> Vec<GetSuccessorsRequest> {
    hooks::take_request_log()
}

pub fn take_send_tx_log() -> Vec<ic_btc_canister::types::SendTransactionInternalRequest> {
    hooks::take_send_transaction_log()
}

pub fn arm_send_tx_reject(reject: Option<(u32, String)>) {
    hooks::arm_send_transaction(true, reject);
}
