//! C17: the watchdog (real code) against stub explorers and a stub/real canister. (placeholder)
use crate::run::RunOutcome;
use crate::trace::*;

pub fn run_generated(_seed: u64, _thorough: bool) -> RunOutcome {
    RunOutcome { harness_error: Some("C17 not built yet".into()), ..Default::default() }
}
pub fn run_trace(_cfg: RunConfig, _events: Vec<Event>) -> RunOutcome {
    RunOutcome { harness_error: Some("C17 not built yet".into()), ..Default::default() }
}
