//! C17: the real watchdog round (fetch over the ic-http mock transport incl. transforms, storage,
//! health, api-access synchronisation) against stub explorers and a stub monitored canister,
//! compared with an independent model of the decision on the latest round only.

use crate::canister::{self, take_last_panic};
use crate::rng::{Fnv, Rng};
use crate::run::RunOutcome;
use crate::sim::{violation, Stats};
use crate::trace::*;
use ic_btc_interface::{Config as CanisterConfig, Fees, Flag, Network};
use ic_management_canister_types::HttpRequestResult;
use std::cell::RefCell;
use std::future::Future;
use std::panic::{catch_unwind, AssertUnwindSafe};
use std::rc::Rc;
use std::task::{Context, Poll, Waker};
use watchdog::verif_hooks as wd;

const TARGETS: [wd::Canister; 5] = [
    wd::Canister::BitcoinMainnet,
    wd::Canister::BitcoinMainnetStaging,
    wd::Canister::BitcoinTestnet,
    wd::Canister::DogecoinMainnet,
    wd::Canister::DogecoinMainnetStaging,
];

/// The stub monitored canister.
#[derive(Default)]
struct StubCanister {
    height: Option<u64>,
    flag: Option<bool>,
    set_config_fails: bool,
    set_config_calls: Vec<Option<Flag>>,
    get_config_calls: u32,
}

fn body_for(provider: &str, h: u64) -> String {
    if provider.contains("bitcore") {
        format!("[{{\"height\": {h}, \"hash\": \"00ab\", \"extra\": [1,2,3]}}]")
    } else if provider.contains("blockchair") {
        format!("{{\"data\": {{\"best_block_height\": {h}, \"blocks\": 1}}, \"context\": {{\"code\": 200}}}}")
    } else if provider.contains("blockcypher") {
        format!("{{\"name\": \"x\", \"height\": {h}, \"hash\": \"00\"}}")
    } else {
        format!("{h}")
    }
}

fn wrong_type_body(provider: &str, h: u64, variant: u64) -> String {
    let v = match variant % 4 {
        0 => format!("\"{h}\""),
        1 => format!("-{h}"),
        2 => format!("{h}.5"),
        _ => "null".to_string(),
    };
    if provider.contains("bitcore") {
        format!("[{{\"height\": {v}}}]")
    } else if provider.contains("blockchair") {
        format!("{{\"data\": {{\"best_block_height\": {v}}}}}")
    } else if provider.contains("blockcypher") {
        format!("{{\"height\": {v}}}")
    } else {
        match variant % 4 {
            0 => format!("{h}abc"),
            1 => format!("-{h}"),
            2 => format!("{h}.5"),
            _ => "height".to_string(),
        }
    }
}

fn response(status: u64, body: Vec<u8>) -> HttpRequestResult {
    HttpRequestResult {
        status: candid::Nat::from(status),
        headers: vec![],
        body,
    }
}

/// Independent model of the decision (C17).
#[derive(Clone, Debug, PartialEq, Eq)]
enum Decision {
    NotEnoughData,
    Ok,
    Behind,
    Ahead,
}

fn model_decision(heights: &[u64], canister: Option<u64>, behind: u64, ahead: u64, min_explorers: usize) -> Decision {
    let Some(c) = canister else {
        return Decision::NotEnoughData;
    };
    if heights.is_empty() || heights.len() < min_explorers {
        return Decision::NotEnoughData;
    }
    let mut v = heights.to_vec();
    v.sort();
    let n = v.len();
    let median = if n % 2 == 1 { v[n / 2] } else { (v[n / 2 - 1] + v[n / 2]) / 2 };
    let lo = median as i128 - behind as i128;
    let hi = median as i128 + ahead as i128;
    let within = v.iter().filter(|h| (**h as i128) >= lo && (**h as i128) <= hi).count();
    if within < min_explorers {
        return Decision::NotEnoughData;
    }
    let c = c as i128;
    if c < lo {
        Decision::Behind
    } else if c > hi {
        Decision::Ahead
    } else {
        Decision::Ok
    }
}

struct WdWorld {
    providers: Vec<(String, ic_management_canister_types::HttpRequestArgs)>,
    stub: Rc<RefCell<StubCanister>>,
    cfg: wd::Config,
    stats: Stats,
    log: Fnv,
    rounds_with_failure: u32,
    rounds_with_quorum: u32,
    last_state: u64,
}

fn poll_tick() -> Result<(), String> {
    let mut fut = Box::pin(wd::tick());
    let waker = Waker::noop();
    let mut cx = Context::from_waker(waker);
    match catch_unwind(AssertUnwindSafe(|| fut.as_mut().poll(&mut cx))) {
        Ok(Poll::Ready(())) => Ok(()),
        Ok(Poll::Pending) => {
            std::mem::forget(fut);
            Err("tick did not complete in one poll".into())
        }
        Err(_) => {
            std::mem::forget(fut);
            Err(format!("tick trapped: {}", take_last_panic()))
        }
    }
}

impl WdWorld {
    fn new(cfg: &RunConfig) -> WdWorld {
        let target = TARGETS[cfg.watchdog_target as usize % TARGETS.len()];
        wd::init(target);
        let wcfg = wd::get_config();
        let all = wd::explorer_requests();
        let providers: Vec<(String, ic_management_canister_types::HttpRequestArgs)> = wcfg
            .explorers
            .iter()
            .map(|name| {
                let req = all
                    .iter()
                    .find(|(n, _)| n == name)
                    .unwrap_or_else(|| panic!("no request for provider {name}"))
                    .1
                    .clone();
                (name.clone(), req)
            })
            .collect();
        let stub = Rc::new(RefCell::new(StubCanister::default()));
        let (s1, s2, s3) = (stub.clone(), stub.clone(), stub.clone());
        wd::set_canister_handlers(
            Box::new(move || s1.borrow().height),
            Box::new(move || {
                let mut s = s2.borrow_mut();
                s.get_config_calls += 1;
                s.flag.map(|f| CanisterConfig {
                    stability_threshold: 144,
                    network: Network::Mainnet,
                    blocks_source: candid::Principal::management_canister(),
                    syncing: Flag::Enabled,
                    fees: Fees::default(),
                    api_access: if f { Flag::Enabled } else { Flag::Disabled },
                    disable_api_if_not_fully_synced: Flag::Enabled,
                    watchdog_canister: None,
                    burn_cycles: Flag::Disabled,
                    lazily_evaluate_fee_percentiles: Flag::Disabled,
                })
            }),
            Box::new(move |req| {
                let mut s = s3.borrow_mut();
                s.set_config_calls.push(req.api_access);
                if s.set_config_fails {
                    Err(())
                } else {
                    if let Some(f) = req.api_access {
                        s.flag = Some(f == Flag::Enabled);
                    }
                    Ok(())
                }
            }),
        );
        WdWorld {
            providers,
            stub,
            cfg: wcfg,
            stats: Stats::default(),
            log: Fnv::default(),
            rounds_with_failure: 0,
            rounds_with_quorum: 0,
            last_state: 0,
        }
    }

    fn round(&mut self, spec: &RoundSpec) -> Result<(), Violation> {
        let n = self.providers.len();
        // 1. explorers: register mocks in the given order
        let mut order: Vec<usize> = spec.order.iter().map(|i| *i as usize % n.max(1)).collect();
        for i in 0..n {
            if !order.contains(&i) {
                order.push(i);
            }
        }
        order.dedup();
        let mut expected: Vec<Option<u64>> = vec![None; n];
        for idx in order {
            let (name, req) = &self.providers[idx];
            let (kind, value) = spec.explorers.get(idx).copied().unwrap_or((8, 0));
            let fault = |s: &mut Stats, k: &str| s.fault(k);
            match kind {
                0 => {
                    expected[idx] = Some(value);
                    ic_http::mock::mock(req.clone(), response(200, body_for(name, value).into_bytes()));
                }
                1 => {
                    fault(&mut self.stats, "F-http-status");
                    let status = [404u64, 500, 429, 301, 204][(value % 5) as usize];
                    ic_http::mock::mock(req.clone(), response(status, body_for(name, value).into_bytes()));
                }
                2 => {
                    fault(&mut self.stats, "F-http-reject");
                    use ic_cdk::call::RejectCode::*;
                    let code = [SysFatal, SysTransient, DestinationInvalid, CanisterReject, CanisterError, SysUnknown][(value % 6) as usize];
                    ic_http::mock::mock_error(req.clone(), (code, "simulated".into()));
                }
                3 => {
                    fault(&mut self.stats, "F-http-empty");
                    ic_http::mock::mock(req.clone(), response(200, vec![]));
                }
                4 => {
                    fault(&mut self.stats, "F-http-garbage");
                    let mut b = Rng::new(value).bytes(40);
                    for x in b.iter_mut() {
                        *x = b'a' + (*x % 26);
                    }
                    ic_http::mock::mock(req.clone(), response(200, b));
                }
                5 => {
                    fault(&mut self.stats, "F-http-wrong-type");
                    ic_http::mock::mock(req.clone(), response(200, wrong_type_body(name, 800_000 + value % 100, value).into_bytes()));
                }
                6 => {
                    fault(&mut self.stats, "F-http-oversized");
                    let mut body = body_for(name, value).into_bytes();
                    body.extend(std::iter::repeat(b' ').take(5000));
                    ic_http::mock::mock(req.clone(), response(200, body));
                }
                7 => {
                    fault(&mut self.stats, "F-http-non-utf8");
                    ic_http::mock::mock(req.clone(), response(200, vec![0xff, 0xfe, 0x80, 0x31, 0x32]));
                }
                9 => {
                    // truncated JSON / number
                    fault(&mut self.stats, "F-http-truncated");
                    let b = body_for(name, value);
                    let cut = if b.len() > 3 { b.len() - 2 } else { 0 };
                    let body = if name.contains("bitcore") || name.contains("blockchair") || name.contains("blockcypher") { b[..cut].to_string() } else { String::new() };
                    ic_http::mock::mock(req.clone(), response(200, body.into_bytes()));
                }
                _ => {
                    fault(&mut self.stats, "F-http-reject");
                    ic_http::mock::mock_error(req.clone(), (ic_cdk::call::RejectCode::SysTransient, "timeout".into()));
                }
            }
        }
        // 2. canister side
        {
            let mut s = self.stub.borrow_mut();
            s.height = spec.canister_height;
            s.flag = spec.actual_flag;
            s.set_config_fails = spec.set_config_fails;
            s.set_config_calls.clear();
            s.get_config_calls = 0;
            if spec.canister_height.is_none() || spec.actual_flag.is_none() || spec.set_config_fails {
                self.stats.fault("F-wcall");
            }
        }
        // 3. the real tick
        poll_tick().map_err(|e| violation("C17", "tick-trap", e))?;
        // 4. model on this round only
        let heights: Vec<u64> = expected.iter().filter_map(|h| *h).collect();
        if heights.len() < n {
            self.rounds_with_failure += 1;
            self.stats.probe("round_with_failed_explorer");
        }
        let want = model_decision(
            &heights,
            spec.canister_height,
            self.cfg.blocks_behind_threshold,
            self.cfg.blocks_ahead_threshold,
            self.cfg.min_explorers as usize,
        );
        if want != Decision::NotEnoughData {
            self.rounds_with_quorum += 1;
            self.stats.probe("round_with_quorum");
        } else {
            self.stats.probe("round_not_enough_data");
        }
        let status = wd::health_status();
        let got = match status.height_status {
            wd::HeightStatus::NotEnoughData => Decision::NotEnoughData,
            wd::HeightStatus::Ok => Decision::Ok,
            wd::HeightStatus::Behind => Decision::Behind,
            wd::HeightStatus::Ahead => Decision::Ahead,
        };
        self.stats.oracle_comparisons += 1;
        self.log.write_str(&format!("{:?}{:?}", got, want));
        {
            // abstract state of a round: (decision, #successful explorers, canister known, flag, failing calls)
            let mut f = Fnv::default();
            f.write_str(&format!("{:?}", want));
            f.write_u64(heights.len() as u64);
            f.write_u64(spec.canister_height.is_some() as u64 | (spec.actual_flag.map(|b| 1 + b as u64).unwrap_or(0) << 1) | (spec.set_config_fails as u64) << 3);
            f.write_u64(self.cfg.min_explorers);
            self.stats.abstract_states.insert(f.0);
            let mut t = Fnv::default();
            t.write_u64(self.last_state);
            t.write_u64(f.0);
            self.stats.abstract_transitions.insert(t.0);
            self.last_state = f.0;
        }
        let desc = format!(
            "explorer results this round {:?} (spec {:?}), canister height {:?}, thresholds -{}/+{}, min_explorers {}",
            expected, spec.explorers, spec.canister_height, self.cfg.blocks_behind_threshold, self.cfg.blocks_ahead_threshold, self.cfg.min_explorers
        );
        if got != want {
            return Err(violation("C17", "status-mismatch", format!("health status {:?}, model {:?}; {desc}", got, want)));
        }
        // what the status reports about explorers must be this round's data
        for (i, (name, _)) in self.providers.iter().enumerate() {
            let reported = status.explorers.iter().find(|b| &b.provider == name).and_then(|b| b.height);
            if reported != expected[i] {
                return Err(violation(
                    "C17",
                    "stale-or-wrong-explorer-height",
                    format!("provider {name}: status reports {:?}, this round's fetch gave {:?}; {desc}", reported, expected[i]),
                ));
            }
        }
        let want_target = match want {
            Decision::NotEnoughData => None,
            Decision::Ok => Some(Flag::Enabled),
            _ => Some(Flag::Disabled),
        };
        let target = wd::get_api_access_target();
        if target != want_target {
            return Err(violation("C17", "target-mismatch", format!("api access target {:?}, model {:?}; {desc}", target, want_target)));
        }
        // set_config is sent iff a target exists and differs from the canister's actual flag
        let actual = spec.actual_flag.map(|f| if f { Flag::Enabled } else { Flag::Disabled });
        let calls = self.stub.borrow().set_config_calls.clone();
        let want_calls: Vec<Option<Flag>> = match want_target {
            Some(t) if Some(t) != actual => vec![Some(t)],
            _ => vec![],
        };
        if calls != want_calls {
            return Err(violation(
                "C17",
                "set-config-mismatch",
                format!("set_config calls {:?}, expected {:?} (target {:?}, actual flag {:?}); {desc}", calls, want_calls, want_target, actual),
            ));
        }
        if !want_calls.is_empty() && !spec.set_config_fails {
            let flag_now = self.stub.borrow().flag;
            if flag_now != want_target.map(|t| t == Flag::Enabled) {
                return Err(violation("C17", "flag-not-applied", format!("canister flag {:?} after set_config, target {:?}", flag_now, want_target)));
            }
            self.stats.probe("flag_changed_by_watchdog");
        }
        // 5. order independence: permute the explorer list and repeat the round
        let mut perm = self.cfg.explorers.clone();
        let mut prng = Rng::new(spec.permute_seed);
        for i in (1..perm.len()).rev() {
            let j = prng.usize_below(i + 1);
            perm.swap(i, j);
        }
        if perm != self.cfg.explorers {
            let mut c2 = self.cfg.clone();
            c2.explorers = perm;
            wd::set_config(c2);
            {
                let mut s = self.stub.borrow_mut();
                s.flag = spec.actual_flag;
                s.set_config_calls.clear();
            }
            let r = poll_tick();
            let status2 = wd::health_status();
            let target2 = wd::get_api_access_target();
            wd::set_config(self.cfg.clone());
            r.map_err(|e| violation("C17", "tick-trap", e))?;
            self.stats.oracle_comparisons += 1;
            if status2.height_status != status.height_status || target2 != target || status2.explorer_height != status.explorer_height {
                return Err(violation(
                    "C17",
                    "order-dependence",
                    format!("decision changed when the explorers were permuted: {:?}/{:?} vs {:?}/{:?}; {desc}", status.height_status, target, status2.height_status, target2),
                ));
            }
            self.stats.probe("permutation_checked");
        }
        Ok(())
    }
}

fn draw_round(rng: &mut Rng, n: usize, base: &mut u64, behind: u64, ahead: u64) -> RoundSpec {
    *base += rng.below(3);
    let fail_rate = *rng.pick(&[0u64, 1, 3, 6, 9]);
    let span = behind.max(ahead).max(1);
    let explorers: Vec<(u8, u64)> = (0..n)
        .map(|_| {
            if rng.below(10) < fail_rate {
                (rng.range(1, 9) as u8, rng.next_u64() % 1000)
            } else {
                let off: i64 = match rng.below(10) {
                    0..=3 => 0,
                    4 => 1,
                    5 => -1,
                    6 => span as i64,
                    7 => -(span as i64),
                    8 => span as i64 + 1,
                    _ => -(3 * span as i64) - 7,
                };
                (0, (*base as i64 + off).max(1000) as u64)
            }
        })
        .collect();
    let mut order: Vec<u8> = (0..n as u8).collect();
    for i in (1..order.len()).rev() {
        let j = rng.usize_below(i + 1);
        order.swap(i, j);
    }
    let c_off: i64 = match rng.below(12) {
        0..=2 => 0,
        3 => behind as i64,
        4 => -(behind as i64),
        5 => ahead as i64,
        6 => ahead as i64 + 1,
        7 => -(behind as i64) - 1,
        8 => 1,
        9 => -1,
        10 => 40 * span as i64,
        _ => -(40 * span as i64),
    };
    RoundSpec {
        explorers,
        order,
        canister_height: if rng.chance(1, 9) { None } else { Some((*base as i64 + c_off).max(1) as u64) },
        actual_flag: if rng.chance(1, 10) { None } else { Some(rng.chance(1, 2)) },
        set_config_fails: rng.chance(1, 10),
        permute_seed: rng.next_u64(),
    }
}

fn finish(w: WdWorld, cfg: RunConfig, events: Vec<Event>, violation: Option<Violation>, applied: usize) -> RunOutcome {
    let mut fp = Fnv::default();
    fp.write_u64(w.log.0);
    RunOutcome {
        config: Some(cfg),
        events,
        violation,
        log_digest: w.log.0,
        fingerprint: fp.0,
        nontrivial: w.rounds_with_failure >= 1 && w.rounds_with_quorum >= 1,
        stats: w.stats,
        harness_error: None,
        applied_events: applied,
        desynced: false,
        known_hits: Default::default(),
    }
}

pub fn run_generated(seed: u64, thorough: bool) -> RunOutcome {
    canister::install_quiet_panic_hook();
    let mut rng = Rng::new(seed);
    let cfg = RunConfig {
        seed,
        profile: "C17".into(),
        network: "mainnet".into(),
        threshold: 0,
        wallet_seed: 0,
        wallet_size: 0,
        page_limit: 0,
        bucket_pages: 0,
        lazy_fees: false,
        sync_flag: false,
        fees: None,
        quiesce: false,
        watchdog_target: rng.below(5) as u8,
        genesis_difficulty: 0,
    };
    let mut w = WdWorld::new(&cfg);
    let rounds = rng.range(3, if thorough { 40 } else { 14 });
    let n = w.providers.len();
    let mut base = 800_000 + rng.below(100_000);
    let mut events = vec![];
    let mut violation = None;
    let (behind, ahead) = (w.cfg.blocks_behind_threshold, w.cfg.blocks_ahead_threshold);
    for i in 0..rounds {
        let spec = draw_round(&mut rng, n, &mut base, behind, ahead);
        events.push(Event::WatchdogRound(spec.clone()));
        *w.stats.events_by_kind.entry("watchdog_round".into()).or_insert(0) += 1;
        if let Err(mut v) = w.round(&spec) {
            v.at_event = i as usize;
            violation = Some(v);
            break;
        }
    }
    let applied = events.len();
    finish(w, cfg, events, violation, applied)
}

pub fn run_trace(cfg: RunConfig, events: Vec<Event>) -> RunOutcome {
    canister::install_quiet_panic_hook();
    let mut w = WdWorld::new(&cfg);
    let mut violation = None;
    let mut applied = 0;
    for (i, ev) in events.iter().enumerate() {
        if let Event::WatchdogRound(spec) = ev {
            applied += 1;
            *w.stats.events_by_kind.entry("watchdog_round".into()).or_insert(0) += 1;
            if let Err(mut v) = w.round(spec) {
                v.at_event = i;
                violation = Some(v);
                break;
            }
        }
    }
    finish(w, cfg, events, violation, applied)
}
