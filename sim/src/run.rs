//! One simulated run: generation or replay of a trace, per-event oracles, end-of-run checks.
//! A run always executes on its own freshly spawned thread (all canister state is thread-local).

use crate::canister;
use crate::gen::{self, Swarm};
use crate::rng::{Fnv, Rng};
use crate::sim::*;
use crate::trace::*;
use crate::views::{snapshot, snapshot_digest, Snapshot};
use std::collections::BTreeMap;

#[derive(Clone, Debug, Default)]
pub struct RunOutcome {
    /// open known findings hit during the run: id -> first example
    pub known_hits: BTreeMap<String, (String, String)>,
    pub config: Option<RunConfig>,
    pub events: Vec<Event>,
    pub violation: Option<Violation>,
    pub log_digest: u64,
    pub fingerprint: u64,
    pub nontrivial: bool,
    pub stats: Stats,
    pub harness_error: Option<String>,
    pub applied_events: usize,
    pub desynced: bool,
}

/// Oracles switched on for a check of `profile`.
pub fn active_for(profile: &str) -> Vec<&'static str> {
    match profile {
        "C01" => vec!["C01"],
        "C02" => vec!["C02", "C15"],
        "C03" => vec!["C03"],
        "C04" => vec!["C04"],
        "C05" => vec!["C05"],
        "C06" => vec!["C06"],
        "C07" => vec!["C07"],
        "C08" => vec!["C08"],
        "C09" => vec!["C09", "C01", "C02", "C07", "C13", "C15", "C20"],
        "C10" => vec!["C10"],
        "C11" => vec!["C11", "C10"],
        "C13" => vec!["C13"],
        "C14" => vec!["C14"],
        "C15" => vec!["C15"],
        "C16" => vec!["C16"],
        "C19" => vec!["C19"],
        "C20" => vec!["C20"],
        _ => vec![],
    }
}

/// Per-event driver shared by generation and replay.
pub struct Driver {
    pub w: World,
    pub profile: String,
    pub events: Vec<Event>,
    pub index: usize,
    // C08
    s0: Option<Snapshot>,
    last_idle_digest: Option<Snapshot>,
    ingest_started_at: Option<usize>,
    ingesting_hash: Option<crate::model::Hash32>,
    ingest_disturbed: bool,
    twin_checks: u32,
    upgrades_seen: u32,
    fp: Fnv,
    known: Vec<crate::known::KnownFinding>,
    pub known_hits: BTreeMap<String, (String, String)>,
    /// set when a known finding left the canister in a state from which the run cannot go on
    pub stopped: bool,
}

impl Driver {
    pub fn new(cfg: &RunConfig) -> Result<Driver, String> {
        let active = active_for(&cfg.profile);
        let w = World::new(cfg, &active).map_err(|t| format!("init trapped: {}", t.0))?;
        Ok(Driver {
            w,
            profile: cfg.profile.clone(),
            events: vec![],
            index: 0,
            s0: None,
            last_idle_digest: None,
            ingest_started_at: None,
            ingesting_hash: None,
            ingest_disturbed: false,
            twin_checks: 0,
            upgrades_seen: 0,
            fp: Fnv::default(),
            known: crate::known::load_known_findings(),
            known_hits: BTreeMap::new(),
            stopped: false,
        })
    }

    fn relabel_c09(&self, mut v: Violation) -> Violation {
        if v.property == "HARNESS" {
            return v;
        }
        // C11 profile: admission through the heartbeat is the observation point of the header
        // rules; a mismatch between admitted blocks/headers and the model's header verdicts is
        // a C11 violation.
        if self.profile == "C02" && v.property == "C15" {
            v.kind = format!("fees-not-at-best-tip:{}", v.kind);
            v.property = "C02".into();
            return v;
        }
        if self.profile == "C11" && v.property == "C10" {
            v.kind = format!("header-admission:{}", v.kind);
            v.property = "C11".into();
            return v;
        }
        // In the C09 profile the other oracles are on only to observe the evolution after
        // upgrades; attribution to C09 is decided by the twin without upgrades (see `finish`).
        if self.profile == "C09" && v.property != "C09" {
            v.kind = format!("after-upgrade:{}:{}", v.property, v.kind);
        }
        v
    }

    /// Applies one event; violations that are open known findings are recorded, not returned.
    pub fn step(&mut self, ev: &Event) -> Result<bool, Violation> {
        if self.stopped {
            self.events.push(ev.clone());
            self.index += 1;
            return Ok(false);
        }
        match self.step_inner(ev) {
            Err(v) => {
                if let Some(k) = crate::known::matches_known(&v, &self.known) {
                    self.known_hits.entry(k.id.clone()).or_insert((k.title.clone(), v.detail.clone()));
                    // a trap leaves no consistent state to continue from
                    if v.kind.contains("trap") {
                        self.stopped = true;
                    }
                    Ok(true)
                } else {
                    Err(v)
                }
            }
            ok => ok,
        }
    }

    fn known_kind(&self, property: &str, kind: &str) -> bool {
        self.known.iter().any(|k| k.status == "open" && k.property == property && k.kind == kind)
    }

    fn step_inner(&mut self, ev: &Event) -> Result<bool, Violation> {
        self.w.event_index = self.index;
        let at = self.index;
        self.events.push(ev.clone());
        self.index += 1;
        let fix = |mut v: Violation| {
            v.at_event = at;
            v
        };
        // C09 (a): snapshot immediately before an upgrade
        let before_upgrade = if matches!(ev, Event::Upgrade { .. }) && self.w.is_active("C09") {
            Some(self.upgrade_snapshot().map_err(fix)?)
        } else {
            None
        };
        let was_ingesting = observe().ingesting.is_some();
        let stable_before = observe().stable_height;
        let tip_before_c15 = if self.w.is_active("C15") && matches!(ev, Event::Heartbeat { .. } | Event::Deliver { .. }) { Some(self.w.best_tip()) } else { None };
        let t0 = std::time::Instant::now();
        let applied = match self.w.apply(ev) {
            Ok(a) => a,
            Err(v) => {
                if v.property == "C03" && v.kind == "advance-not-due" && self.w.reference_took_other_step && !self.w.is_active("C03") {
                    // The anchor left the chain the reference serves. Evaluate this profile's own
                    // answers against the reference (which advanced to the child the rule names).
                    if let Err(mut own) = self.w.check_views(at) {
                        if own.property == self.profile {
                            own.kind = format!("after-wrong-advance:{}", own.kind);
                            own.detail = format!("{} (the canister's anchor had just advanced to a child the stability rule does not allow: {})", own.detail, v.detail);
                            return Err(fix(own));
                        }
                    }
                }
                return Err(self.relabel_c09(v));
            }
        };
        *self.w.stats.wall_us.entry(format!("apply:{}", ev.kind())).or_insert(0) += t0.elapsed().as_micros() as u64;
        let t0 = std::time::Instant::now();
        if !applied {
            return Ok(false);
        }
        self.fp.write_str(ev.kind());
        if let Event::Upgrade { arg } = ev {
            self.upgrades_seen += 1;
            if let Some((d, fees)) = before_upgrade {
                let (d2, fees2) = self.upgrade_snapshot().map_err(fix)?;
                self.w.stats.oracle_comparisons += 1;
                if arg.is_none() && d != d2 {
                    let diff = d.diff(&d2, &["utxos_length"]);
                    if diff.is_empty() {
                        let before = d.diff(&d2, &[]);
                        let v = fix(violation(
                            "C09",
                            "utxos-length-changed-by-upgrade",
                            format!("every read answer is unchanged by the upgrade except get_blockchain_info().utxos_length ({})", before.join("; ")),
                        ));
                        match crate::known::matches_known(&v, &self.known) {
                            Some(k) => {
                                self.known_hits.entry(k.id.clone()).or_insert((k.title.clone(), v.detail.clone()));
                            }
                            None => return Err(v),
                        }
                    } else {
                    return Err(fix(violation(
                        "C09",
                        "answers-changed-by-upgrade",
                        format!("{} read answers changed across the upgrade, e.g. {}", diff.len(), diff.iter().take(3).cloned().collect::<Vec<_>>().join("; ")),
                    )));
                    }
                }
                if fees != fees2 && arg.is_none() {
                    return Err(fix(violation("C09", "fee-percentiles-changed-by-upgrade", format!("before {:?} after {:?}", fees.first(), fees2.first()))));
                }
            }
        }
        // snapshot oracles
        self.w.check_views(at).map_err(|v| fix(self.relabel_c09(v)))?;
        if self.w.is_active("C20") {
            self.w.check_bookkeeping().map_err(|v| fix(self.relabel_c09(v)))?;
        }
        if self.w.is_active("C10") && matches!(ev, Event::Heartbeat { .. } | Event::Deliver { .. } | Event::Quiesce) {
            // C10: a rejected element (and everything after it in the reply, announced headers
            // included) has no effect: the internal view must be exactly the model's.
            self.w.check_bookkeeping().map_err(|mut v| {
                if v.property != "HARNESS" {
                    v.kind = format!("state-after-reply:{}", v.kind);
                    v.property = "C10".into();
                    v = self.relabel_c09(v);
                }
                fix(v)
            })?;
        }
        if self.w.is_active("C15") {
            self.w.note_fee_candidate();
            if let Event::SetConfig(c) | Event::Upgrade { arg: Some(c) } = ev {
                if c.lazy_fees.is_some() {
                    self.w.stats.probe("lazy_flag_flipped");
                    self.w.eager_expected = None;
                }
            }
            // "Computed when a new tip is first observed": with eager evaluation the message that
            // makes a block the best tip also computes the percentiles for it (with the anchor as
            // it stands at the end of that message) and they are kept until the tip changes.
            match ev {
                Event::Heartbeat { .. } | Event::Deliver { .. } => {
                    let tip = self.w.best_tip();
                    if Some(tip) != tip_before_c15 {
                        self.w.eager_expected = None;
                        if !self.w.lazy_fees {
                            let win = self.w.model_fee_window(tip);
                            if !win.is_empty() {
                                self.w.eager_expected = Some((tip, crate::model::fee_percentiles(&win)));
                                self.w.stats.probe("eager_tip_change_with_fees");
                            }
                        }
                    }
                }
                Event::Quiesce => self.w.eager_expected = None,
                _ => {}
            }
        }
        if self.w.is_active("C08") {
            self.c08_checks(ev, was_ingesting, stable_before).map_err(fix)?;
        }
        *self.w.stats.wall_us.entry("checks".into()).or_insert(0) += t0.elapsed().as_micros() as u64;
        let t0 = std::time::Instant::now();
        self.abstract_state();
        *self.w.stats.wall_us.entry("abstract".into()).or_insert(0) += t0.elapsed().as_micros() as u64;
        Ok(true)
    }

    fn upgrade_snapshot(&mut self) -> Result<(Snapshot, Vec<u64>), Violation> {
        let d = snapshot(&mut self.w).map_err(|t| violation("C09", "snapshot-trap", t.0))?;
        // the request goes through the client model (in lazy mode every request is an observation)
        let fees = match self.w.fee_request_values() {
            Ok(Some(v)) => v,
            Ok(None) => vec![],
            Err(v) => return Err(self.relabel_c09(v)),
        };
        Ok((d, fees))
    }

    fn abstract_state(&mut self) {
        // abstract state = (tree shape, stable height mod 8, fetch automaton, ingest state, flags)
        let o = observe();
        let mut f = Fnv::default();
        let mut shape: Vec<(u32, usize)> = self.w.tree.nodes.values().map(|n| (n.height - self.w.anchor_height(), n.children.len())).collect();
        shape.sort();
        for (h, c) in shape {
            f.write_u64(h as u64);
            f.write_u64(c as u64);
        }
        f.write_u64((o.stable_height % 8) as u64);
        f.write_u64(match &o.resp {
            RespKind::None => 0,
            RespKind::Partial { pages_done, .. } => 1 + (*pages_done as u64).min(3),
            RespKind::Complete { blocks, .. } => 10 + (blocks.len() as u64).min(3),
        });
        f.write_u64(o.ingesting.is_some() as u64);
        f.write_u64(self.w.tasks.len() as u64);
        f.write_u64((self.w.api_access as u64) | (self.w.sync_flag as u64) << 1 | (self.w.syncing as u64) << 2);
        f.write_u64(self.w.announced.len().min(4) as u64);
        let st = f.0;
        self.w.stats.abstract_states.insert(st);
        let mut t = Fnv::default();
        t.write_u64(self.w.last_abstract);
        t.write_u64(st);
        self.w.stats.abstract_transitions.insert(t.0);
        self.w.last_abstract = st;
        self.fp.write_u64(st);
    }

    fn c08_checks(&mut self, ev: &Event, was_ingesting: bool, stable_before: u32) -> Result<(), Violation> {
        let o = observe();
        let ingesting = o.ingesting.is_some();
        let disturbing = matches!(ev, Event::SetConfig(_) | Event::Upgrade { .. } | Event::Client(_) | Event::Deliver { .. });
        if ingesting {
            let d = snapshot(&mut self.w).map_err(|t| violation("C08", "snapshot-trap", format!("a read endpoint trapped while ingestion is paused: {}", t.0)))?;
            self.w.stats.oracle_comparisons += 1;
            // a different block than at the previous check point: its ingestion began in this message
            let same_block = was_ingesting && self.ingesting_hash == o.ingesting;
            self.ingesting_hash = o.ingesting;
            if !same_block && was_ingesting {
                // the previous block finished and this one began within one heartbeat: there is
                // no observable "before" state; later pauses are compared with this one
                self.ingest_started_at = None;
                self.s0 = Some(d);
            } else if !was_ingesting {
                // ingestion began in this message
                self.ingest_started_at = Some(self.index - 1);
                self.ingest_disturbed = false;
                if o.stable_height == stable_before {
                    if let Some(prev) = &self.last_idle_digest {
                        if *prev != d {
                            return Err(pause_violation(prev, &d, "before ingestion began", "at the first pause"));
                        }
                    }
                }
                self.s0 = Some(d);
            } else if disturbing {
                self.s0 = Some(d);
                self.ingest_disturbed = true;
            } else if let Some(s0) = &self.s0 {
                if *s0 != d {
                    return Err(pause_violation(s0, &d, "at an earlier pause of this block", "now"));
                }
            }
            // (c) finiteness: with >= 1 operation per round a block with n slice checks needs <= n + 1 rounds
            let anchor = self.w.tree.anchor;
            let n: u64 = self
                .w
                .block(anchor)
                .block
                .txdata
                .iter()
                .map(|t| (if t.is_coinbase() { 0 } else { t.input.len() }) as u64 + t.output.len() as u64)
                .sum();
            // (the bound is kept generous — 2n + ntx + 8 — so that a different placement of the
            // budget checks, e.g. one more per transaction, is not mistaken for non-termination)
            let ntx = self.w.block(anchor).block.txdata.len() as u64;
            if self.w.ingest_rounds > 2 * n + ntx + 8 {
                return Err(violation(
                    "C08",
                    "ingestion-does-not-finish",
                    format!("block with {n} slice checks still unfinished after {} rounds", self.w.ingest_rounds),
                ));
            }
        } else {
            self.ingesting_hash = None;
            if was_ingesting || (o.stable_height > stable_before && self.ingest_started_at.is_some()) {
                // ingestion finished: compare with an unsliced twin
                if let (Some(start), false) = (self.ingest_started_at, self.ingest_disturbed) {
                    if self.twin_checks < 3 && matches!(ev, Event::Heartbeat { .. }) {
                        self.twin_checks += 1;
                        self.twin_compare(start)?;
                    }
                }
                self.ingest_started_at = None;
                self.s0 = None;
            }
            if matches!(ev, Event::Heartbeat { .. } | Event::Deliver { .. } | Event::SetConfig(_) | Event::Upgrade { .. } | Event::Quiesce) || self.last_idle_digest.is_none() {
                self.last_idle_digest = Some(snapshot(&mut self.w).map_err(|t| violation("C08", "snapshot-trap", t.0))?);
            }
        }
        Ok(())
    }

    /// C08 (d): the state after a sliced ingestion equals the state of a run in which the same
    /// heartbeat was not sliced.
    fn twin_compare(&mut self, start: usize) -> Result<(), Violation> {
        let mine = full_state_digest(&mut self.w).map_err(|t| violation("C08", "snapshot-trap", t.0))?;
        let cfg = self.w.cfg.clone();
        let my_stable_height = observe().stable_height;
        let mut prefix: Vec<Event> = self.events[..start].to_vec();
        prefix.push(Event::Heartbeat { pause_at: 0 });
        let twin = std::thread::Builder::new()
            .stack_size(256 << 20)
            .spawn(move || -> Result<(u64, String), String> {
                canister::install_quiet_panic_hook();
                let mut d = Driver::new(&cfg)?;
                d.w.active.clear();
                for ev in &prefix {
                    d.w.event_index = d.index;
                    d.w.apply(ev).map_err(|v| format!("twin diverged: {:?}", v))?;
                    d.index += 1;
                }
                // The statement compares *states*, not heartbeat counts: if the unsliced run needs a
                // further heartbeat to stabilise a second block that the sliced run's finishing round
                // already took (or the code ingests one block per round), give it those heartbeats.
                let mut extra = 0;
                loop {
                    let o = observe();
                    if o.ingesting.is_some() {
                        return Err("twin still ingesting".into());
                    }
                    if o.stable_height >= my_stable_height || extra >= 8 {
                        if o.stable_height != my_stable_height {
                            return Err("twin at another stable height".into());
                        }
                        break;
                    }
                    d.w.event_index = d.index;
                    d.w.apply(&Event::Heartbeat { pause_at: 0 }).map_err(|v| format!("twin diverged: {:?}", v))?;
                    d.index += 1;
                    extra += 1;
                }
                full_state_digest(&mut d.w).map_err(|t| t.0)
            })
            .unwrap()
            .join()
            .map_err(|_| violation("C08", "twin-panicked", "harness".into()))?;
        self.w.stats.oracle_comparisons += 1;
        self.w.stats.probe("twin_compared");
        match twin {
            Ok(t) => {
                if t != mine {
                    return Err(violation(
                        "C08",
                        "sliced-differs-from-unsliced",
                        format!("after sliced ingestion: {} ; unsliced twin: {}", mine.1, t.1),
                    ));
                }
                Ok(())
            }
            Err(e) => {
                // a twin that cannot be built is a harness matter, not a violation
                self.w.stats.probe(&format!("twin_unavailable:{}", e.chars().take(40).collect::<String>()));
                Ok(())
            }
        }
    }

    pub fn finish(mut self) -> RunOutcome {
        let mut out = RunOutcome::default();
        out.config = Some(self.w.cfg.clone());
        out.log_digest = self.w.log.0 ^ self.fp.0;
        out.fingerprint = self.fp.0;
        out.nontrivial = nontrivial(&self.profile, &self.w.stats);
        out.stats = std::mem::take(&mut self.w.stats);
        out.events = std::mem::take(&mut self.events);
        out.applied_events = self.index;
        out.desynced = self.w.desynced;
        out.known_hits = std::mem::take(&mut self.known_hits);
        out
    }
}

fn pause_violation(a: &Snapshot, b: &Snapshot, wa: &str, wb: &str) -> Violation {
    let diff = a.diff(b, &["utxos_length"]);
    if diff.is_empty() {
        return violation(
            "C08",
            "utxos-length-changed-at-pause",
            format!("every read answer equals the one {wa} except get_blockchain_info().utxos_length ({} {wb})", a.diff(b, &[]).join("; ")),
        );
    }
    violation(
        "C08",
        "answer-changed-at-pause",
        format!("{} read answers differ between {wa} and {wb}, e.g. {}", diff.len(), diff.iter().take(3).cloned().collect::<Vec<_>>().join("; ")),
    )
}

/// Read-API digest plus bookkeeping, as (digest, short description).
pub fn full_state_digest(w: &mut World) -> Result<(u64, String), canister::Trap> {
    let d = snapshot_digest(w, true)?;
    let bk = crate::bookkeeping::read_bookkeeping().unwrap_or_else(|e| panic!("bookkeeping: {e}"));
    let mut f = Fnv::default();
    f.write_u64(d);
    for h in &bk.tree_hashes {
        f.write(h);
    }
    for (k, v) in &bk.tx_out_counts {
        f.write(&k.txid);
        f.write_u64(k.vout as u64);
        f.write_u64(*v);
        f.write_u64(bk.tx_out_heights[k] as u64);
    }
    for k in &bk.cache_keys {
        f.write(k);
    }
    let o = observe();
    let info = canister::get_blockchain_info()?;
    let (utxos, addr_utxos, balances) = ic_btc_canister::with_state(|s| (s.utxos.utxos_len(), s.utxos.address_utxos_len(), s.utxos.balances_len()));
    f.write_u64(utxos);
    f.write_u64(addr_utxos);
    f.write_u64(balances);
    Ok((
        f.0,
        format!(
            "api {:016x}, stable height {}, {} unstable, utxos {} (index {}, balances {}), utxos_length {}",
            d,
            o.stable_height,
            o.hashes.len(),
            utxos,
            addr_utxos,
            balances,
            info.utxos_length
        ),
    ))
}

pub fn nontrivial(profile: &str, stats: &Stats) -> bool {
    let p = |k: &str| stats.probes.get(k).copied().unwrap_or(0) > 0;
    let f = |k: &str| stats.faults.get(k).copied().unwrap_or(0) > 0;
    match profile {
        "C01" | "C02" | "C04" | "C05" => p("blocks_admitted") && stats.abstract_states.len() >= 4,
        "C03" => p("anchor_advance"),
        "C06" => p("session_interleaved_completed") || p("page_token_invalidated"),
        "C07" => p("header_range_straddles_boundary") || p("ingestion_paused"),
        "C08" => p("ingestion_paused"),
        "C09" => f("F-upg") && p("blocks_admitted"),
        "C10" | "C11" => stats.probes.keys().any(|k| k.starts_with("reject_")) || p("next_header_invalid"),
        "C13" => p("paged_reply") || f("F-rej") || p("overlapping_tasks") || f("F-pages"),
        "C14" => p("sync_gate_closed") || p("api_disabled") || p("gate_wrong_network"),
        "C15" => p("fee_window_nonempty"),
        "C16" => p("paid_below_maximum") || p("paid_request_level_error") || p("paid_variable_part_capped"),
        "C19" => p("send_tx_forwarded") || p("send_tx_malformed_refused"),
        "C20" => p("anchor_advance_discards_fork") || p("announced_headers_held"),
        _ => true,
    }
}

/// Generates and executes a run from `seed`.
pub fn run_generated(profile: &str, seed: u64, thorough: bool) -> RunOutcome {
    let (cfg, sw) = gen::draw_config(profile, seed, thorough);
    run_with(cfg, Some((sw, seed)), vec![])
}

/// Replays an explicit trace.
pub fn run_trace(cfg: RunConfig, events: Vec<Event>) -> RunOutcome {
    run_with(cfg, None, events)
}

fn run_with(cfg: RunConfig, gen: Option<(Swarm, u64)>, trace: Vec<Event>) -> RunOutcome {
    let mut driver = match Driver::new(&cfg) {
        Ok(d) => d,
        Err(e) => {
            return RunOutcome {
                harness_error: Some(e),
                config: Some(cfg),
                ..Default::default()
            }
        }
    };
    let mut violation = None;
    match gen {
        Some((mut sw, seed)) => {
            let mut rng = Rng::new(seed);
            for _ in 0..sw.max_events {
                if sw.script.as_ref().map(|s| s.finished).unwrap_or(false) {
                    break;
                }
                let ev = gen::next_event(&mut sw, &driver.w, &mut rng);
                match driver.step(&ev) {
                    Ok(_) => {}
                    Err(v) => {
                        violation = Some(v);
                        break;
                    }
                }
            }
            if violation.is_none() && cfg.quiesce {
                let ev = Event::Quiesce;
                if let Err(v) = driver.step(&ev) {
                    violation = Some(v);
                }
            }
        }
        None => {
            for ev in &trace {
                match driver.step(ev) {
                    Ok(_) => {}
                    Err(v) => {
                        violation = Some(v);
                        break;
                    }
                }
            }
        }
    }
    let mut out = driver.finish();
    // Violations of properties other than the profile's own are not this check's business,
    // except in the C09 profile (decided by the twin in main).
    out.violation = violation;
    out
}

#[allow(dead_code)]
pub fn unused(_: BTreeMap<u8, u8>) {}


/// C08, exhaustive part: builds (from the seed) a history in which a stabilising block with
/// `n <= max_n` slice checks is due, then runs **every** set of pause positions inside that
/// block (2^(n-1) traces: prefix + heartbeats with the corresponding budgets), each as an
/// ordinary trace on a fresh canister with all C08 oracles on. Returns None if the seed does
/// not produce a suitable history.
pub fn run_c08_exhaustive(seed: u64, thorough: bool) -> Option<RunOutcome> {
    let (mut cfg, mut sw) = gen::draw_config("C08", seed ^ 0xE8, thorough);
    cfg.quiesce = false;
    sw.slice_profile = 0;
    sw.upgrades = false;
    sw.fault_cfg = false;
    sw.fault_clock = false;
    sw.long_chain = false;
    sw.script = None;
    sw.tx_density = sw.tx_density.clamp(1, 3);
    let max_n: u64 = if thorough { 10 } else { 8 };
    // 1. prefix
    let mut driver = Driver::new(&cfg).ok()?;
    let mut rng = Rng::new(seed ^ 0xE8);
    let mut found = None;
    for _ in 0..140 {
        let ev = gen::next_event(&mut sw, &driver.w, &mut rng);
        if driver.step(&ev).is_err() {
            return None; // the ordinary runs report this
        }
        let o = observe();
        if o.ingesting.is_none() && driver.w.tasks.is_empty() && matches!(o.resp, RespKind::None) {
            let v = crate::model::stability_verdict(&driver.w.tree, driver.w.threshold, driver.w.testnet_like());
            if v.required.is_some() {
                let anchor = driver.w.tree.anchor;
                let n: u64 = driver
                    .w
                    .block(anchor)
                    .block
                    .txdata
                    .iter()
                    .map(|t| (if t.is_coinbase() { 0 } else { t.input.len() }) as u64 + t.output.len() as u64)
                    .sum();
                if (2..=max_n).contains(&n) {
                    found = Some(n);
                    break;
                }
            }
        }
    }
    let n = found?;
    let prefix = driver.events.clone();
    let mut total = driver.finish();
    total.nontrivial = true;
    // 2. every set of pause positions {p1 < p2 < ...} within 1..n-1 (pause after p_i operations)
    let masks = 1u64 << (n - 1);
    for mask in 0..masks {
        let mut events = prefix.clone();
        let mut done = 0u64;
        for p in 1..n {
            if mask & (1 << (p - 1)) != 0 {
                events.push(Event::Heartbeat { pause_at: p - done + 1 });
                done = p;
            }
        }
        events.push(Event::Heartbeat { pause_at: 0 });
        events.push(Event::Heartbeat { pause_at: 0 });
        let c = cfg.clone();
        let o = crate::on_fresh_thread(move || run_trace(c, events)).ok()?;
        total.stats.oracle_comparisons += o.stats.oracle_comparisons;
        *total.stats.probes.entry("exhaustive_pause_sets_run".into()).or_insert(0) += 1;
        for (k, v) in &o.stats.probes {
            if k == "ingestion_paused" || k == "twin_compared" || k == "paused_twice_in_one_block" {
                *total.stats.probes.entry(k.clone()).or_insert(0) += v;
            }
        }
        for (id, x) in &o.known_hits {
            total.known_hits.entry(id.clone()).or_insert(x.clone());
        }
        if o.violation.is_some() || o.harness_error.is_some() {
            let mut bad = o;
            bad.nontrivial = true;
            return Some(bad);
        }
    }
    *total.stats.probes.entry("exhaustive_blocks".into()).or_insert(0) += 1;
    Some(total)
}
