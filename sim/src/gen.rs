//! Seeded generation: the per-run swarm configuration and the next event, both pure functions
//! of the run's PRNG and the current world.

use crate::net::{MineSpec, Mutation, Special};
use crate::rng::Rng;
use crate::sim::World;
use crate::trace::*;

#[derive(Clone, Debug)]
pub struct Swarm {
    pub max_events: usize,
    /// weights: mine, heartbeat, deliver, client, set_config, upgrade, time
    pub weights: [u32; 7],
    pub fork_propensity: u32, // in 1/16
    pub tx_density: u8,
    pub difficulty_profile: u8, // 0 equal, 1 random 1..20, 2 heavy-short vs light-long, 3 increasing, 4 ties
    pub slice_profile: u8,      // 0 never, 1 one-op rounds, 2 small, 3 geometric
    pub fault_adapter: bool,    // F-dup/F-orphan/F-order/F-bytes/F-next via Explicit replies
    pub fault_blocks: bool,     // F-hdr / F-body mutated blocks
    pub fault_reject: bool,
    pub fault_pages: bool,
    pub fault_delay: bool,
    pub fault_clock: bool,
    pub fault_cfg: bool,
    pub upgrades: bool,
    pub remine: u8,
    pub many_outputs: bool,
    pub many_txs: bool,
    pub page_bytes: u32,
    pub max_blocks: u8,
    pub max_next: u8,
    pub client_mix: [u32; 7],
    pub long_chain: bool,
    pub script: Option<LongScript>,
    /// scripted opening of a run (emitted before random generation takes over)
    pub prelude: std::collections::VecDeque<Event>,
}

/// Scripted generator for long two-branch histories (testnet/regtest depth bound, retargets).
#[derive(Clone, Debug, Default)]
pub struct LongScript {
    pub queue: std::collections::VecDeque<Event>,
    pub a_tip: usize,
    pub b_tip: usize,
    pub a_len: u32,
    pub b_len: u32,
    pub race_until: u32,
    pub max_lead_in_race: u32,
    pub pull_ahead_to: u32,
    pub done: bool,
    pub finished: bool,
    pub single_branch: bool,
    /// 0 = two racing branches (C03 depth bound); 1 = long header-rule chain (C11)
    pub mode: u8,
    /// C11 mode: dt plan per 2016-block period (0 fast, 1 normal, 2 slow, 3 mixed) and length
    pub period_plan: Vec<u8>,
    pub target_height: u32,
    pub candidates_left: u32,
    /// mode 0: short forks near the tips (many tips far from the anchor)
    pub twigs: bool,
    pub a_recent: Vec<usize>,
    /// mode 1: the first block of the second period is stamped 20 days ahead and the next one
    /// goes back to median-time-past + 1, so that the period's timespan is negative
    pub backdate: bool,
}

pub fn profile_networks(profile: &str) -> &'static [&'static str] {
    match profile {
        "C03" | "C11" => &["regtest", "regtest", "testnet", "mainnet"],
        "C16" => &["regtest", "testnet", "mainnet"],
        _ => &["regtest", "regtest", "regtest", "testnet", "mainnet"],
    }
}

/// Draws the run configuration for `profile` from the run seed.
pub fn draw_config(profile: &str, seed: u64, tier_thorough: bool) -> (RunConfig, Swarm) {
    let mut rng = Rng::new(seed ^ 0x5157_41524d);
    let network = rng.pick(profile_networks(profile)).to_string();
    let threshold = *rng.pick(&[1u32, 1, 2, 2, 3, 4, 6, 10, 30, 144]);
    let threshold = match profile {
        // small thresholds so that blocks stabilise within a run
        "C08" | "C09" | "C06" | "C07" | "C20" | "C03" => *rng.pick(&[1u32, 1, 2, 2, 3, 4]),
        _ => threshold,
    };
    let page_limit = *rng.pick(&[1usize, 2, 3, 7, 1000]);
    let fault_free = rng.chance(1, 5);
    let adapter_faults = matches!(profile, "C10" | "C13" | "C20" | "C11" | "C14" | "C09");
    let mut sw = Swarm {
        max_events: rng.range(40, if tier_thorough { 400 } else { 160 }) as usize,
        weights: [30, 40, 30, 0, 3, 3, 4],
        fork_propensity: *rng.pick(&[0u32, 2, 4, 6, 9]),
        tx_density: *rng.pick(&[0u8, 1, 2, 4, 6]),
        difficulty_profile: rng.below(5) as u8,
        slice_profile: rng.below(4) as u8,
        fault_adapter: adapter_faults && !fault_free && rng.chance(2, 3),
        fault_blocks: adapter_faults && !fault_free && rng.chance(2, 3),
        fault_reject: !fault_free && rng.chance(1, 2),
        fault_pages: !fault_free && rng.chance(1, 2),
        fault_delay: !fault_free && rng.chance(2, 3),
        fault_clock: !fault_free && rng.chance(1, 3),
        fault_cfg: !fault_free && rng.chance(1, 2),
        upgrades: !fault_free && rng.chance(1, 2),
        remine: *rng.pick(&[0u8, 0, 4, 8]),
        many_outputs: rng.chance(1, 3),
        many_txs: false,
        page_bytes: *rng.pick(&[300u32, 700, 2000, 2_000_000, 2_000_000]),
        max_blocks: rng.range(1, 6) as u8,
        max_next: rng.range(0, 12) as u8,
        client_mix: [0; 7],
        long_chain: false,
        script: None,
        prelude: Default::default(),
    };
    if network != "regtest" {
        // natural difficulties only vary through retargets; use overrides on all networks
    }
    match profile {
        "C01" | "C04" | "C05" => {
            sw.weights = [30, 45, 30, 0, 3, 3, 2];
        }
        "C02" => {
            // fee percentiles must refer to the same tip as the other endpoints
            sw.weights = [30, 45, 30, 6, 3, 3, 2];
            sw.client_mix = [0, 0, 0, 10, 0, 0, 0];
            sw.tx_density = sw.tx_density.max(2);
        }
        "C06" => {
            sw.weights = [25, 40, 28, 30, 2, 3, 2];
            sw.client_mix = [10, 30, 6, 0, 0, 0, 0];
            sw.many_outputs = true;
            sw.tx_density = sw.tx_density.max(2);
        }
        "C07" | "C08" => {
            sw.slice_profile = 1 + rng.below(3) as u8;
            sw.tx_density = sw.tx_density.max(2);
        }
        "C09" => {
            sw.upgrades = true;
            sw.weights = [28, 40, 28, 8, 3, 14, 2];
            sw.client_mix = [2, 3, 0, 10, 0, 0, 0];
            sw.tx_density = sw.tx_density.max(2);
        }
        "C13" => {
            sw.weights = [25, 50, 25, 0, 4, 4, 2];
            sw.fault_delay = true;
        }
        "C14" => {
            sw.weights = [25, 40, 28, 12, 12, 2, 2];
            sw.client_mix = [0, 0, 0, 0, 0, 0, 10];
            sw.fault_cfg = true;
            sw.max_next = rng.range(0, 7) as u8;
        }
        "C15" => {
            sw.weights = [30, 40, 28, 14, 3, 4, 2];
            sw.client_mix = [0, 0, 0, 10, 0, 0, 0];
            sw.tx_density = sw.tx_density.max(3);
            sw.many_txs = rng.chance(1, if tier_thorough { 8 } else { 25 });
            if sw.many_txs {
                // keep > 10,000 transactions unstable: the window is cut inside a block
                sw.upgrades = true;
                sw.weights = [40, 40, 28, 12, 0, 6, 1];
                // scripted prefix: four big blocks on the best chain, delivered, then requests
                let mut q = std::collections::VecDeque::new();
                let sizes = [*rng.pick(&[2500u16, 3300]), *rng.pick(&[3300u16, 4100]), *rng.pick(&[2500u16, 4100]), *rng.pick(&[1500u16, 3300])];
                let mut parent = 0usize;
                for (i, n) in sizes.iter().enumerate() {
                    q.push_back(Event::Mine(MineSpec {
                        id: i + 1,
                        parent,
                        seed: rng.next_u64(),
                        ntx: 1,
                        dt: 600,
                        difficulty: 0,
                        special: Special::ManyTxs { n: *n },
                        mutation: Mutation::None,
                        remine: 0,
                    }));
                    parent = i + 1;
                }
                for _ in 0..3 {
                    sync_round(&mut q, ReplySpec::Honest { max_blocks: 4, max_next: 0, page: 4_000_000, lag: 0, include_invalid: false });
                }
                q.push_back(Event::Client(ClientOp::FeePercentiles));
                if rng.chance(1, 2) {
                    q.push_back(Event::Upgrade { arg: None });
                    q.push_back(Event::Mine(MineSpec {
                        id: 5,
                        parent: 4,
                        seed: rng.next_u64(),
                        ntx: 2,
                        dt: 600,
                        difficulty: 0,
                        special: Special::None,
                        mutation: Mutation::None,
                        remine: 0,
                    }));
                    sync_round(&mut q, ReplySpec::Honest { max_blocks: 4, max_next: 0, page: 4_000_000, lag: 0, include_invalid: false });
                    q.push_back(Event::Client(ClientOp::FeePercentiles));
                }
                sw.script = Some(LongScript { mode: 2, queue: q, ..Default::default() });
                sw.fork_propensity = 1;
                sw.max_events = sw.max_events.max(90);
            }
        }
        "C16" => {
            sw.weights = [15, 25, 15, 40, 8, 2, 2];
            sw.client_mix = [0, 0, 0, 0, 10, 0, 0];
            sw.fault_cfg = true;
        }
        "C19" => {
            sw.weights = [10, 15, 10, 50, 8, 2, 2];
            sw.client_mix = [0, 0, 0, 0, 0, 10, 0];
            sw.fault_cfg = true;
        }
        _ => {}
    }
    let mut threshold = threshold;
    let mut network = network;
    let mut genesis_difficulty = 0u64;
    if sw.many_txs {
        threshold = *rng.pick(&[30u32, 144]);
    }
    if profile == "C03" && rng.chance(1, if tier_thorough { 8 } else { 25 }) {
        // long two-branch history reaching the testnet/regtest depth bound
        sw.long_chain = true;
        sw.max_events = 6000;
        sw.tx_density = 0;
        sw.upgrades = false;
        sw.fault_cfg = false;
        network = rng.pick(&["regtest", "regtest", "testnet"]).to_string();
        threshold = *rng.pick(&[144u32, 400, 499, 500, 600, 600, 2000]);
        let race_until = *rng.pick(&[300u32, 900, 1520, 1560, 1600]);
        if threshold < 499 && rng.chance(2, 3) {
            // heavy anchor: the difficulty rule stays out of reach, the depth bound decides
            genesis_difficulty = *rng.pick(&[10u64, 40]);
        }
        sw.script = Some(LongScript {
            race_until,
            max_lead_in_race: *rng.pick(&[100u32, 300, 460, 480]),
            pull_ahead_to: 640,
            single_branch: rng.chance(1, 4),
            twigs: rng.chance(1, 2),
            ..Default::default()
        });
    }
    if profile == "C07" && rng.chance(1, if tier_thorough { 8 } else { 25 }) {
        // chains taller than the 100-header response cap, stable / unstable / straddling
        sw.long_chain = true;
        sw.max_events = 4000;
        sw.tx_density = 0;
        sw.upgrades = false;
        sw.fault_cfg = false;
        network = rng.pick(&["regtest", "regtest", "testnet", "mainnet"]).to_string();
        threshold = *rng.pick(&[2u32, 40, 144, 144]);
        sw.script = Some(LongScript {
            race_until: *rng.pick(&[0u32, 60]),
            max_lead_in_race: 10,
            pull_ahead_to: *rng.pick(&[130u32, 210, 320]),
            single_branch: rng.chance(1, 2),
            ..Default::default()
        });
    }
    if profile == "C20" && rng.chance(1, if tier_thorough { 10 } else { 30 }) {
        // a long fork discarded at once: mass clean-up of cached outputs, deltas and bodies
        sw.long_chain = true;
        sw.max_events = 4000;
        sw.tx_density = 0;
        sw.upgrades = false;
        sw.fault_cfg = false;
        network = "regtest".to_string();
        threshold = *rng.pick(&[60u32, 100, 144]);
        sw.script = Some(LongScript {
            race_until: *rng.pick(&[120u32, 250, 400]),
            max_lead_in_race: *rng.pick(&[20u32, 50]),
            pull_ahead_to: 200,
            ..Default::default()
        });
    }
    if profile == "C11" && rng.chance(1, if tier_thorough { 4 } else { 10 }) {
        // long header-rule chain crossing one or two retargets
        sw.long_chain = true;
        sw.max_events = 40_000;
        sw.tx_density = 0;
        sw.upgrades = false;
        sw.fault_cfg = false;
        network = rng.pick(&["testnet", "testnet", "mainnet"]).to_string();
        threshold = *rng.pick(&[2u32, 3]);
        let plans: [[u8; 3]; 8] = [[0, 2, 1], [0, 2, 3], [0, 3, 3], [1, 0, 2], [2, 0, 3], [0, 0, 2], [3, 1, 0], [0, 1, 3]];
        let mut plan = rng.pick(&plans).to_vec();
        let target_height = *rng.pick(&[2060u32, 2060, 4070, 4070, 4070]);
        let backdate = target_height > 4032 && rng.chance(1, 3);
        if backdate {
            plan[1] = 1; // regular cadence: the period ends about six days "before" it began
        }
        sw.script = Some(LongScript {
            mode: 1,
            period_plan: plan,
            target_height,
            candidates_left: 70,
            backdate,
            ..Default::default()
        });
    }
    if sw.script.is_none() && matches!(profile, "C01" | "C02" | "C03" | "C04" | "C05" | "C07" | "C20") && rng.chance(1, 24) {
        // Scripted opening "threshold raised while the anchor's ingestion is paused": the anchor `a`
        // has a heavy one-block child `x` (stable under threshold 2) and a light three-block
        // branch y1-y2-y3; a's ingestion is paused, the threshold goes up so that x is no longer
        // stable (through set_config or through the post_upgrade argument), ingestion completes.
        // The anchor must then advance to x, the child on the chain being served.
        threshold = 2;
        let mk = |id: usize, parent: usize, ntx: u8, difficulty: u64, rng: &mut Rng| {
            Event::Mine(MineSpec {
                id,
                parent,
                seed: rng.next_u64(),
                ntx,
                dt: 600,
                difficulty,
                special: Special::None,
                mutation: Mutation::None,
                remine: 0,
            })
        };
        let mut q = std::collections::VecDeque::new();
        q.push_back(mk(1, 0, 3, 1, &mut rng));
        q.push_back(mk(2, 1, 1, *rng.pick(&[20u64, 9, 40]), &mut rng));
        q.push_back(mk(3, 1, 2, 1, &mut rng));
        q.push_back(mk(4, 3, 0, 1, &mut rng));
        q.push_back(mk(5, 4, 1, 1, &mut rng));
        q.push_back(Event::Heartbeat { pause_at: 0 });
        q.push_back(Event::Deliver {
            task: 0,
            reply: ReplySpec::Honest { max_blocks: 8, max_next: 0, page: 4_000_000, lag: 0, include_invalid: false },
            pause_at: 0,
        });
        q.push_back(Event::Heartbeat { pause_at: 0 });
        // genesis has one slice check; pause inside `a`
        q.push_back(Event::Heartbeat { pause_at: *rng.pick(&[3u64, 4, 5]) });
        let up = ConfigSpec {
            threshold: Some(*rng.pick(&[60u32, 100, 144])),
            syncing: None,
            api_access: None,
            sync_flag: None,
            lazy_fees: None,
            fees: None,
        };
        if rng.chance(1, 3) {
            q.push_back(Event::Upgrade { arg: Some(up) });
        } else {
            q.push_back(Event::SetConfig(up));
        }
        q.push_back(Event::Heartbeat { pause_at: 0 });
        q.push_back(Event::Heartbeat { pause_at: 0 });
        sw.prelude = q;
    }
    let lazy_fees = rng.chance(1, 2);
    let sync_flag = profile == "C14" && rng.chance(3, 4);
    let fees = if profile == "C16" && rng.chance(1, 10) {
        // an explicit all-zero table is a table like any other
        Some(FeeSpec {
            get_utxos_base: 0,
            get_utxos_rate: 0,
            get_utxos_maximum: 0,
            get_balance: 0,
            get_balance_maximum: 0,
            fee_percentiles: 0,
            fee_percentiles_maximum: 0,
            send_base: 0,
            send_per_byte: 0,
            headers_base: 0,
            headers_rate: 0,
            headers_maximum: 0,
        })
    } else if profile == "C16" && rng.chance(2, 3) {
        Some(draw_fees(&mut rng))
    } else {
        None
    };
    let cfg = RunConfig {
        seed,
        profile: profile.to_string(),
        network,
        threshold,
        wallet_seed: rng.next_u64(),
        wallet_size: rng.range(14, 19) as usize,
        page_limit,
        bucket_pages: *rng.pick(&[1u16, 4, 16]),
        lazy_fees,
        sync_flag,
        fees,
        quiesce: true,
        watchdog_target: 0,
        genesis_difficulty,
    };
    (cfg, sw)
}

pub fn draw_fees(rng: &mut Rng) -> FeeSpec {
    let pick = |rng: &mut Rng| -> u64 { *rng.pick(&[0u64, 1, 7, 1000, 50_000_000]) };
    let mut f = FeeSpec {
        get_utxos_base: pick(rng),
        get_utxos_rate: *rng.pick(&[0u64, 1, 4, 10]),
        get_utxos_maximum: 0,
        get_balance: pick(rng),
        get_balance_maximum: 0,
        fee_percentiles: pick(rng),
        fee_percentiles_maximum: 0,
        send_base: pick(rng),
        send_per_byte: *rng.pick(&[0u64, 1, 20_000]),
        headers_base: pick(rng),
        headers_rate: *rng.pick(&[0u64, 1, 4, 10]),
        headers_maximum: 0,
    };
    // maximum >= base (statement's domain); sometimes equal, sometimes far above
    f.get_utxos_maximum = f.get_utxos_base + *rng.pick(&[0u64, 1, 100, 10_000_000_000]);
    f.headers_maximum = f.headers_base + *rng.pick(&[0u64, 1, 100, 10_000_000_000]);
    f.get_balance_maximum = f.get_balance + *rng.pick(&[0u64, 1, 1000]);
    f.fee_percentiles_maximum = f.fee_percentiles + *rng.pick(&[0u64, 1, 1000]);
    f
}

fn draw_pause(sw: &Swarm, rng: &mut Rng) -> u64 {
    match sw.slice_profile {
        0 => 0,
        1 => 2,
        2 => rng.range(2, 6),
        _ => {
            if rng.chance(1, 3) {
                0
            } else {
                2 + rng.geometric(8)
            }
        }
    }
}

fn draw_difficulty(sw: &Swarm, w: &World, parent: usize, rng: &mut Rng) -> u64 {
    let pd = w.net.blocks[&parent].difficulty as u64;
    match sw.difficulty_profile {
        0 => 0,
        1 => rng.range(1, 20),
        2 => {
            // heavy short branches against light long ones
            if rng.chance(1, 4) {
                rng.range(8, 30)
            } else {
                1
            }
        }
        3 => pd.max(1) + rng.below(3),
        _ => *rng.pick(&[2u64, 2, 2, 4]),
    }
}

pub fn honest_reply(sw: &Swarm) -> ReplySpec {
    ReplySpec::Honest {
        max_blocks: sw.max_blocks,
        max_next: sw.max_next,
        page: sw.page_bytes,
        lag: 0,
        include_invalid: false,
    }
}

fn draw_reply(sw: &Swarm, w: &World, rng: &mut Rng) -> ReplySpec {
    let ids: Vec<usize> = w.net.blocks.keys().copied().collect();
    if sw.fault_reject && rng.chance(1, 12) {
        return ReplySpec::Reject(rng.range(1, 6) as u8);
    }
    if sw.fault_adapter && rng.chance(1, 25) {
        return ReplySpec::Empty;
    }
    if (sw.fault_adapter || w.cfg.profile == "C14") && rng.chance(1, 8) {
        // announce (only) the header of a block whose body will never be accepted: the header
        // goes stale and stays until the stable height reaches it
        let stale: Vec<usize> = w
            .net
            .blocks
            .values()
            .filter(|b| {
                matches!(b.mutation, Mutation::BadMerkleRoot | Mutation::NoCoinbase | Mutation::DuplicateTx | Mutation::NoTransactions)
                    && b.parent.map(|p| w.tree.contains(p)).unwrap_or(false)
            })
            .map(|b| b.id)
            .collect();
        if !stale.is_empty() {
            return ReplySpec::Explicit {
                blocks: vec![],
                next: vec![HeaderOffer::Header(*rng.pick(&stale))],
            };
        }
    }
    if sw.fault_pages && rng.chance(1, 10) && ids.len() > 1 {
        // explicit page counts, including 0 and 255, on a block the canister lacks if possible
        let candidates: Vec<usize> = ids.iter().copied().filter(|i| !w.tree.contains(*i) && *i != 0).collect();
        let block = if candidates.is_empty() { *rng.pick(&ids) } else { *rng.pick(&candidates) };
        let follow_ups = *rng.pick(&[0u8, 1, 1, 2, 3, 7, 40, 255]);
        return ReplySpec::Paged {
            block,
            follow_ups,
            max_next: rng.below(3) as u8,
        };
    }
    if w.cfg.profile == "C15" && rng.chance(1, 5) && ids.len() > 1 {
        // a reply whose first blocks are fine and whose tail is broken: the tip changes in a
        // message that also counts an error (eager evaluation must still see the new tip)
        return ReplySpec::HonestPoisoned {
            max_blocks: sw.max_blocks.max(2),
            max_next: sw.max_next,
            poison: if rng.chance(1, 2) { BlockOffer::Garbage(rng.next_u64(), rng.below(300) as u32) } else { BlockOffer::Truncated(*rng.pick(&ids), rng.below(200) as u32) },
            at: 1 + rng.below(2) as u8,
        };
    }
    if sw.fault_adapter && rng.chance(1, 7) && ids.len() > 1 {
        // the honest answer with one poisoned element: everything after it must have no effect
        let id = *rng.pick(&ids);
        if rng.chance(1, 6) {
            return ReplySpec::HonestReversed {
                max_blocks: sw.max_blocks.max(2),
                max_next: sw.max_next,
            };
        }
        let poison = match rng.below(10) {
            0 => BlockOffer::Truncated(id, rng.below(200) as u32),
            1 => BlockOffer::Garbage(rng.next_u64(), rng.below(300) as u32),
            2 => BlockOffer::Empty,
            3 | 4 => BlockOffer::ReplyBlock(rng.below(4) as u8), // the same block twice in one reply
            _ => BlockOffer::Block(id), // duplicate, orphan, stable-only parent or invalid block
        };
        return ReplySpec::HonestPoisoned {
            max_blocks: sw.max_blocks,
            max_next: sw.max_next.max(2),
            poison,
            at: rng.below(3) as u8,
        };
    }
    if sw.fault_adapter && rng.chance(1, 6) && ids.len() > 1 {
        // adversarial complete reply: duplicates, orphans, wrong order, broken bytes
        let n = 1 + rng.below(4) as usize;
        let mut blocks = vec![];
        for _ in 0..n {
            let id = *rng.pick(&ids);
            blocks.push(match rng.below(10) {
                0 => BlockOffer::Truncated(id, rng.below(200) as u32),
                1 => BlockOffer::Garbage(rng.next_u64(), rng.below(300) as u32),
                2 => BlockOffer::Empty,
                _ => BlockOffer::Block(id),
            });
        }
        let m = rng.below(4) as usize;
        let mut next = vec![];
        for _ in 0..m {
            let id = *rng.pick(&ids);
            next.push(match rng.below(10) {
                0 => HeaderOffer::Padded(id, 1 + rng.below(120) as u8),
                1 => HeaderOffer::Short(id, rng.below(80) as u8),
                2 => HeaderOffer::Garbage(rng.next_u64(), *rng.pick(&[0u8, 79, 80, 81, 200])),
                _ => HeaderOffer::Header(id),
            });
        }
        return ReplySpec::Explicit { blocks, next };
    }
    ReplySpec::Honest {
        max_blocks: sw.max_blocks,
        max_next: sw.max_next,
        page: sw.page_bytes,
        lag: if sw.fault_adapter && rng.chance(1, 8) { rng.range(1, 3) as u8 } else { 0 },
        include_invalid: sw.fault_blocks,
    }
}

fn draw_mine(sw: &Swarm, w: &World, rng: &mut Rng) -> Event {
    let next_id = w.net.blocks.keys().max().copied().unwrap_or(0) + 1;
    // parent: extend the heaviest known tip of the network, or fork somewhere
    let ids: Vec<usize> = w.net.blocks.keys().copied().collect();
    let valid_ids: Vec<usize> = ids
        .iter()
        .copied()
        .filter(|i| w.net.blocks[i].is_honest() && w.net.blocks[i].ledger.is_some())
        .collect();
    let best_net_tip = *valid_ids
        .iter()
        .max_by_key(|i| (w.net.blocks[i].height, std::cmp::Reverse(**i)))
        .unwrap();
    let parent = if rng.below(16) < sw.fork_propensity as u64 {
        // bias to recent blocks: pick among the last 8 valid ones or the model tree
        let tree_ids: Vec<usize> = w.tree.nodes.keys().copied().collect();
        if rng.chance(2, 3) && !tree_ids.is_empty() {
            *rng.pick(&tree_ids)
        } else {
            let k = valid_ids.len().saturating_sub(8);
            *rng.pick(&valid_ids[k..])
        }
    } else if rng.chance(1, 5) {
        // extend the canister's best tip (keeps forks racing)
        w.best_tip()
    } else {
        best_net_tip
    };
    let mutation = if w.cfg.profile == "C14" && rng.chance(1, 5) {
        // a header-valid block whose body is rejected: its announced header goes stale
        *rng.pick(&[Mutation::BadMerkleRoot, Mutation::NoCoinbase, Mutation::DuplicateTx])
    } else if sw.fault_blocks && rng.chance(1, 9) {
        let real = w.net.real_pow;
        match rng.below(12) {
            0 if real => Mutation::BadNonce,
            1 => Mutation::TimeMtp(*rng.pick(&[-1i8, 0, 0])),
            2 => Mutation::TimeFuture(*rng.pick(&[1i16, 2, 600])),
            3 => Mutation::WrongBits,
            4 => Mutation::BitsAboveMax,
            5 => Mutation::NoTransactions,
            6 => Mutation::NoCoinbase,
            7 => Mutation::BadMerkleRoot,
            8 => Mutation::DuplicateTx,
            9 => Mutation::MerkleTailDup,
            _ => Mutation::TimeMtp(1), // boundary: exactly MTP + 1 is valid
        }
    } else if rng.chance(1, 30) {
        Mutation::TimeFuture(*rng.pick(&[0i16, -1, -600])) // boundary: exactly now + 2h is valid
    } else {
        Mutation::None
    };
    // TimeMtp(1) and TimeFuture(<=0) are valid headers: label them as unmutated for the model.
    let special = if sw.many_outputs && rng.chance(1, if w.cfg.profile == "C06" { 5 } else { 10 }) {
        Special::ManyOutputs {
            n: *rng.pick(&[5u16, 40, 260, 300, 1100]),
            to: rng.below(6) as u8,
        }
    } else if sw.many_txs && rng.chance(1, 3) {
        Special::ManyTxs { n: *rng.pick(&[200u16, 2500, 3300, 4100, 6000]) }
    } else {
        Special::None
    };
    let dt = if sw.long_chain {
        1300
    } else {
        *rng.pick(&[1u32, 30, 600, 600, 1300, 4000])
    };
    Event::Mine(MineSpec {
        id: next_id,
        parent,
        seed: rng.next_u64(),
        ntx: if sw.tx_density == 0 { 0 } else { rng.below(sw.tx_density as u64 + 1) as u8 },
        dt,
        difficulty: draw_difficulty(sw, w, parent, rng),
        special,
        mutation,
        remine: sw.remine,
    })
}

fn sync_round(q: &mut std::collections::VecDeque<Event>, reply: ReplySpec) {
    q.push_back(Event::Heartbeat { pause_at: 0 });
    q.push_back(Event::Deliver { task: 0, reply, pause_at: 0 });
    q.push_back(Event::Heartbeat { pause_at: 0 });
    q.push_back(Event::Heartbeat { pause_at: 0 });
}

/// C11: a long single chain whose block spacing follows a per-period plan, with mutated
/// candidate headers offered (as announced header, then as block) at interesting heights.
fn header_chain_next(sw: &mut Swarm, w: &World, rng: &mut Rng) -> Event {
    let sc = sw.script.as_mut().unwrap();
    if let Some(ev) = sc.queue.pop_front() {
        return match ev {
            Event::Deliver { .. } if w.tasks.is_empty() => Event::Heartbeat { pause_at: 0 },
            other => other,
        };
    }
    if sc.done {
        sc.finished = true;
        return Event::Heartbeat { pause_at: 0 };
    }
    let mut next_id = w.net.blocks.keys().max().copied().unwrap_or(0) + 1;
    // continue from the canister's best tip (valid candidates become part of the chain)
    sc.a_tip = w.best_tip();
    sc.a_len = w.net.blocks[&sc.a_tip].height;
    let height = sc.a_len; // height of the current tip
    if height >= sc.target_height {
        sc.done = true;
        return Event::Heartbeat { pause_at: 0 };
    }
    // chunk: up to the next interesting height
    let interesting: [u32; 12] = [3, 9, 2014, 2015, 2016, 2017, 2030, 4031, 4032, 4033, 4040, 4050];
    let next_stop = interesting.iter().copied().find(|h| *h > height).unwrap_or(sc.target_height).min(sc.target_height);
    let k = (next_stop - height).min(rng.range(20, 110) as u32).max(1);
    let honest = ReplySpec::Honest { max_blocks: 120, max_next: 0, page: 2_000_000, lag: 0, include_invalid: false };
    let mut parent = sc.a_tip;
    for i in 0..k {
        let h = height + i + 1;
        let plan = sc.period_plan[((h / 2016) as usize).min(sc.period_plan.len() - 1)];
        let mut dt = match plan {
            0 => rng.range(60, 200) as u32,
            1 => rng.range(500, 700) as u32,
            2 => rng.range(2400, 2700) as u32,
            _ => *rng.pick(&[1300u32, 1300, 1300, 1300, 1201, 1200, 1199, 600, 300, 2500]),
        };
        let mut mutation = Mutation::None;
        if sc.backdate && h == 2016 {
            dt = 20 * 86_400;
        }
        if sc.backdate && h == 2017 {
            mutation = Mutation::TimeMtp(1); // valid, and far below the parent's timestamp
        }
        sc.queue.push_back(Event::Mine(MineSpec {
            id: next_id,
            parent,
            seed: rng.next_u64(),
            ntx: 0,
            dt,
            difficulty: 0,
            special: Special::BareCoinbase,
            mutation,
            remine: 0,
        }));
        parent = next_id;
        next_id += 1;
    }
    sc.a_tip = parent;
    sc.a_len += k;
    for _ in 0..(k / 100 + 2) {
        sync_round(&mut sc.queue, honest.clone());
    }
    // candidates on top of the new tip
    let at_interesting = interesting.contains(&sc.a_len) || interesting.contains(&(sc.a_len + 1));
    if sc.candidates_left > 0 && (at_interesting || rng.chance(1, 4)) {
        let n_c = if at_interesting { 6 } else { rng.range(1, 3) as u32 };
        for _ in 0..n_c.min(sc.candidates_left) {
            sc.candidates_left -= 1;
            let mutation = match rng.below(14) {
                0 => Mutation::TimeMtp(-1),
                1 | 2 => Mutation::TimeMtp(0),
                3 => Mutation::TimeMtp(1),
                4 => Mutation::TimeFuture(1),
                5 => Mutation::TimeFuture(0),
                6 => Mutation::WrongBits,
                7 => Mutation::BitsAboveMax,
                8 | 9 => Mutation::ParentBits,
                10 | 11 => Mutation::LimitBits,
                _ => Mutation::None,
            };
            let dt = *rng.pick(&[1u32, 600, 1199, 1200, 1201, 1300, 2500]);
            // Half of the candidates at interesting heights sit on a parent that is itself only
            // *announced* when the candidate's header is validated (the validator then has to
            // count announced headers into the candidate's height: retarget boundaries move).
            let mut cand_parent = sc.a_tip;
            let mut announced_parent = None;
            if at_interesting && rng.chance(1, 2) {
                let pid = next_id;
                next_id += 1;
                let h = sc.a_len + 1;
                let plan = sc.period_plan[((h / 2016) as usize).min(sc.period_plan.len() - 1)];
                sc.queue.push_back(Event::Mine(MineSpec {
                    id: pid,
                    parent: sc.a_tip,
                    seed: rng.next_u64(),
                    ntx: 0,
                    dt: match plan {
                        0 => 120,
                        1 => 600,
                        2 => 2500,
                        _ => 1300,
                    },
                    difficulty: 0,
                    special: Special::BareCoinbase,
                    mutation: Mutation::None,
                    remine: 0,
                }));
                cand_parent = pid;
                announced_parent = Some(pid);
            }
            let cid = next_id;
            next_id += 1;
            sc.queue.push_back(Event::Mine(MineSpec {
                id: cid,
                parent: cand_parent,
                seed: rng.next_u64(),
                ntx: 0,
                dt,
                difficulty: 0,
                special: Special::None,
                mutation,
                remine: 0,
            }));
            // first as an announced header, then as a block
            if let Some(pid) = announced_parent {
                sync_round(&mut sc.queue, ReplySpec::Explicit { blocks: vec![], next: vec![HeaderOffer::Header(pid), HeaderOffer::Header(cid)] });
                sync_round(&mut sc.queue, ReplySpec::Explicit { blocks: vec![BlockOffer::Block(pid)], next: vec![] });
                sync_round(&mut sc.queue, ReplySpec::Explicit { blocks: vec![BlockOffer::Block(cid)], next: vec![] });
                // later candidates of this batch go on top of whatever was admitted
                sc.a_tip = pid;
                sc.a_len += 1;
                break;
            }
            sync_round(&mut sc.queue, ReplySpec::Explicit { blocks: vec![], next: vec![HeaderOffer::Header(cid)] });
            sync_round(&mut sc.queue, ReplySpec::Explicit { blocks: vec![BlockOffer::Block(cid)], next: vec![] });
        }
    }
    sc.queue.pop_front().unwrap()
}

fn long_next(sw: &mut Swarm, w: &World, rng: &mut Rng) -> Event {
    if sw.script.as_ref().unwrap().mode == 1 {
        return header_chain_next(sw, w, rng);
    }
    if sw.script.as_ref().unwrap().mode == 2 {
        // a scripted prefix; random generation takes over when it is used up
        let sc = sw.script.as_mut().unwrap();
        if let Some(ev) = sc.queue.pop_front() {
            return match ev {
                Event::Deliver { .. } if w.tasks.is_empty() => Event::Heartbeat { pause_at: 0 },
                other => other,
            };
        }
        sw.script = None;
        return next_event(sw, w, rng);
    }
    let sc = sw.script.as_mut().unwrap();
    if let Some(ev) = sc.queue.pop_front() {
        // never start a heartbeat while a reply is outstanding; never deliver without a task
        return match ev {
            Event::Deliver { .. } if w.tasks.is_empty() => Event::Heartbeat { pause_at: 0 },
            other => other,
        };
    }
    if sc.done {
        sc.finished = true;
        return Event::Heartbeat { pause_at: 0 };
    }
    let total = sc.a_len + sc.b_len;
    let mut next_id = w.net.blocks.keys().max().copied().unwrap_or(0) + 1;
    let lead = sc.a_len as i64 - sc.b_len as i64;
    // choose branch and chunk
    let (on_a, k): (bool, u32) = if total < sc.race_until && !sc.single_branch {
        let k = rng.range(10, 90) as u32;
        let prefer_a = rng.chance(11, 20);
        let on_a = if lead + k as i64 > sc.max_lead_in_race as i64 {
            false
        } else if -lead + k as i64 > sc.max_lead_in_race as i64 {
            true
        } else {
            prefer_a
        };
        (on_a, k)
    } else if lead < sc.pull_ahead_to as i64 {
        (true, rng.range(3, 25) as u32)
    } else {
        sc.done = true;
        (true, 1)
    };
    let mut parent = if on_a { sc.a_tip } else { sc.b_tip };
    for _ in 0..k {
        sc.queue.push_back(Event::Mine(MineSpec {
            id: next_id,
            parent,
            seed: rng.next_u64(),
            ntx: 0,
            dt: 1300,
            difficulty: 0,
            special: Special::BareCoinbase,
            mutation: Mutation::None,
            remine: 0,
        }));
        parent = next_id;
        next_id += 1;
    }
    if on_a {
        sc.a_tip = parent;
        sc.a_len += k;
        sc.a_recent.push(parent);
    } else {
        sc.b_tip = parent;
        sc.b_len += k;
    }
    if sc.twigs && on_a && k >= 3 && rng.chance(1, 2) {
        // a one- or two-block fork a few blocks below the tip of branch A
        let mut p = parent - rng.range(1, 2) as usize; // ids of a chunk are consecutive
        for _ in 0..rng.range(1, 2) {
            sc.queue.push_back(Event::Mine(MineSpec {
                id: next_id,
                parent: p,
                seed: rng.next_u64(),
                ntx: 0,
                dt: 1300,
                difficulty: 0,
                special: Special::BareCoinbase,
                mutation: Mutation::None,
                remine: 0,
            }));
            p = next_id;
            next_id += 1;
        }
    }
    // sync: fetch, deliver, process (+ ingest) until everything is in
    let rounds = k / 100 + 2;
    for _ in 0..rounds {
        sc.queue.push_back(Event::Heartbeat { pause_at: 0 });
        sc.queue.push_back(Event::Deliver {
            task: 0,
            reply: ReplySpec::Honest {
                max_blocks: 120,
                max_next: 0,
                page: 2_000_000,
                lag: 0,
                include_invalid: false,
            },
            pause_at: 0,
        });
        sc.queue.push_back(Event::Heartbeat { pause_at: 0 });
    }
    sc.queue.push_back(Event::Heartbeat { pause_at: 0 });
    sc.queue.pop_front().unwrap()
}

/// Draws the next event.
pub fn next_event(sw: &mut Swarm, w: &World, rng: &mut Rng) -> Event {
    if let Some(ev) = sw.prelude.pop_front() {
        return match ev {
            Event::Deliver { .. } if w.tasks.is_empty() => Event::Heartbeat { pause_at: 0 },
            e => e,
        };
    }
    if sw.script.is_some() {
        return long_next(sw, w, rng);
    }
    let sw: &Swarm = sw;
    let mut weights = sw.weights;
    if w.tasks.is_empty() {
        weights[2] = 0;
    } else if !sw.fault_delay {
        // no delay fault: replies are delivered before anything else happens
        return Event::Deliver {
            task: 0,
            reply: draw_reply(sw, w, rng),
            pause_at: 0,
        };
    }
    if !sw.upgrades {
        weights[5] = 0;
    }
    if !sw.fault_cfg {
        weights[4] = 0;
    }
    if !sw.fault_clock {
        weights[6] = weights[6].min(1);
    }
    if w.net.blocks.len() > 220 && !sw.long_chain {
        weights[0] = 1;
    }
    match rng.weighted(&weights) {
        0 => draw_mine(sw, w, rng),
        1 => Event::Heartbeat { pause_at: draw_pause(sw, rng) },
        2 => Event::Deliver {
            task: rng.usize_below(w.tasks.len()),
            reply: draw_reply(sw, w, rng),
            pause_at: 0,
        },
        3 => Event::Client(crate::client::draw_client_op(sw, w, rng)),
        4 => Event::SetConfig(draw_config_change(sw, w, rng)),
        5 => Event::Upgrade {
            arg: if rng.chance(1, 3) { Some(draw_config_change(sw, w, rng)) } else { None },
        },
        _ => Event::Time {
            secs: if sw.fault_clock { *rng.pick(&[1u64, 60, 3600, 7300, 86_400, 10 * 86_400]) } else { rng.range(1, 600) },
        },
    }
}

pub fn draw_config_change(sw: &Swarm, w: &World, rng: &mut Rng) -> ConfigSpec {
    let mut c = ConfigSpec {
        threshold: None,
        syncing: None,
        api_access: None,
        sync_flag: None,
        lazy_fees: None,
        fees: None,
    };
    let profile = w.cfg.profile.as_str();
    match profile {
        "C14" | "C19" => match rng.below(4) {
            0 => c.api_access = Some(rng.chance(1, 2)),
            1 => c.sync_flag = Some(rng.chance(2, 3)),
            2 => c.api_access = Some(true),
            _ => c.threshold = Some(*rng.pick(&[1u32, 2, 3, 6])),
        },
        "C16" => {
            c.fees = Some(draw_fees(rng));
        }
        "C13" => match rng.below(3) {
            0 => c.syncing = Some(rng.chance(1, 2)),
            1 => c.syncing = Some(true),
            _ => c.threshold = Some(*rng.pick(&[1u32, 2, 3, 6])),
        },
        "C15" | "C02" => match rng.below(3) {
            0 => c.lazy_fees = Some(rng.chance(1, 2)),
            _ => c.threshold = Some(*rng.pick(&[1u32, 2, 3, 6])),
        },
        _ => {
            // threshold up and down mid-history
            c.threshold = Some(*rng.pick(&[1u32, 1, 2, 3, 4, 6, 10]));
        }
    }
    let _ = sw;
    c
}
