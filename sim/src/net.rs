//! `BtcNet`: the simulated Bitcoin network. Keeps every block ever mined (a DAG rooted at the
//! real genesis of the run's network) and builds blocks that are transaction-valid on their own
//! chain, with real rust-bitcoin types and (on regtest) real proof of work.

use crate::model::{self, Hash32, Ledger, OutP};
use crate::rng::Rng;
use crate::rules;
use bitcoin::absolute::LockTime;
use bitcoin::block::{Header, Version};
use bitcoin::hashes::Hash;
use bitcoin::transaction::Version as TxVersion;
use bitcoin::{
    Amount, Block, CompactTarget, OutPoint, ScriptBuf, Sequence, Transaction, TxIn, TxMerkleNode,
    TxOut, Txid, Witness,
};
use ic_btc_interface::Network;
use serde::{Deserialize, Serialize};
use std::collections::BTreeMap;
use std::rc::Rc;

pub fn btc_network(n: Network) -> bitcoin::Network {
    match n {
        Network::Mainnet => bitcoin::Network::Bitcoin,
        Network::Testnet => bitcoin::Network::Testnet4,
        Network::Regtest => bitcoin::Network::Regtest,
    }
}

#[derive(Clone, Debug)]
pub struct WalletEntry {
    pub script: Vec<u8>,
    pub address: Option<String>,
    pub kind: &'static str,
}

/// The run's fixed table script <-> address text.
#[derive(Clone, Debug)]
pub struct Wallet {
    pub entries: Vec<WalletEntry>,
    /// script bytes -> address string
    pub by_script: BTreeMap<Vec<u8>, String>,
    /// (index of short address, index of the entry whose text starts with it)
    pub prefix_pairs: Vec<(usize, usize)>,
    /// Strings that are not valid addresses of this network.
    pub bad_addresses: Vec<String>,
}

const BECH32: &[u8] = b"qpzry9x8gf2tvdw0s3jn54khce6mua7l";

fn push_slice(v: &mut Vec<u8>, data: &[u8]) {
    assert!(data.len() <= 75);
    v.push(data.len() as u8);
    v.extend_from_slice(data);
}

fn script_p2pkh(h: &[u8]) -> Vec<u8> {
    let mut v = vec![0x76, 0xa9];
    push_slice(&mut v, h);
    v.extend_from_slice(&[0x88, 0xac]);
    v
}
fn script_p2sh(h: &[u8]) -> Vec<u8> {
    let mut v = vec![0xa9];
    push_slice(&mut v, h);
    v.push(0x87);
    v
}
fn script_witness(version: u8, prog: &[u8]) -> Vec<u8> {
    let mut v = vec![if version == 0 { 0 } else { 0x50 + version }];
    push_slice(&mut v, prog);
    v
}

fn address_of(script: &[u8], net: Network) -> Option<String> {
    bitcoin::Address::from_script(bitcoin::Script::from_bytes(script), btc_network(net))
        .ok()
        .map(|a| a.to_string())
}

/// Builds a P2WSH program whose bech32 text starts with the complete text of the P2WPKH
/// address `short` (its 32 data characters and 6 checksum characters become program bits).
fn prefix_colliding_p2wsh(short: &str, rng: &mut Rng) -> Option<Vec<u8>> {
    let pos = short.rfind('1')?;
    let data = &short.as_bytes()[pos + 1..];
    if data.len() != 39 {
        return None; // version char + 32 data + 6 checksum
    }
    let mut vals: Vec<u8> = vec![];
    for c in &data[1..] {
        let v = BECH32.iter().position(|x| x == c)? as u8;
        vals.push(v);
    }
    // 38 five-bit groups = 190 bits, then 66 free bits.
    let mut bits: Vec<u8> = vec![];
    for v in vals {
        for k in (0..5).rev() {
            bits.push((v >> k) & 1);
        }
    }
    while bits.len() < 256 {
        bits.push((rng.next_u64() & 1) as u8);
    }
    let mut prog = vec![0u8; 32];
    for (i, b) in bits.iter().enumerate() {
        prog[i / 8] |= b << (7 - (i % 8));
    }
    Some(script_witness(0, &prog))
}

impl Wallet {
    pub fn generate(net: Network, rng: &mut Rng, size: usize) -> Wallet {
        let mut entries: Vec<WalletEntry> = vec![];
        let mut add = |script: Vec<u8>, kind: &'static str, entries: &mut Vec<WalletEntry>| {
            let address = address_of(&script, net);
            entries.push(WalletEntry {
                script,
                address,
                kind,
            });
            entries.len() - 1
        };
        // One of each address kind first, then random kinds.
        let p2wpkh = add(script_witness(0, &rng.bytes(20)), "p2wpkh", &mut entries);
        add(script_p2pkh(&rng.bytes(20)), "p2pkh", &mut entries);
        add(script_p2sh(&rng.bytes(20)), "p2sh", &mut entries);
        add(script_witness(0, &rng.bytes(32)), "p2wsh", &mut entries);
        add(script_witness(1, &rng.bytes(32)), "p2tr", &mut entries);
        let mut prefix_pairs = vec![];
        let short = entries[p2wpkh].address.clone().unwrap();
        if let Some(script) = prefix_colliding_p2wsh(&short, rng) {
            let idx = add(script, "p2wsh-prefix", &mut entries);
            let long = entries[idx].address.clone().unwrap();
            assert!(long.starts_with(&short) && long != short, "prefix pair construction");
            prefix_pairs.push((p2wpkh, idx));
        }
        // Scripts without an address.
        add(vec![0x51, 0x52, 0x93], "nonstandard", &mut entries);
        {
            let mut pk = vec![65u8, 4];
            pk.extend(rng.bytes(64));
            pk.push(0xac);
            add(pk, "p2pk", &mut entries);
        }
        {
            // medium: 26..=201 bytes
            let mut s = vec![];
            push_slice(&mut s, &rng.bytes(60));
            push_slice(&mut s, &rng.bytes(40));
            s.extend_from_slice(&[0x6d, 0x51]);
            add(s, "medium", &mut entries);
        }
        {
            // large: > 201 bytes
            let mut s = vec![];
            for _ in 0..4 {
                push_slice(&mut s, &rng.bytes(70));
            }
            s.extend_from_slice(&[0x6d, 0x6d, 0x51]);
            add(s, "large", &mut entries);
        }
        add(script_witness(5, &rng.bytes(10)), "witness-v5", &mut entries);
        // scripts exactly at the size boundaries of the stable UTXO maps (small <= 25 bytes,
        // medium <= 201 bytes, large above)
        for len in [26usize, 201, 202] {
            let mut s = vec![];
            let mut left = len - 1;
            while left > 0 {
                let k = left.min(76) - 1; // one push opcode + k bytes
                push_slice(&mut s, &rng.bytes(k));
                left -= k + 1;
            }
            s.push(0x51);
            assert_eq!(s.len(), len);
            add(s, "boundary", &mut entries);
        }
        while entries.len() < size {
            match rng.below(5) {
                0 => add(script_p2pkh(&rng.bytes(20)), "p2pkh", &mut entries),
                1 => add(script_p2sh(&rng.bytes(20)), "p2sh", &mut entries),
                2 => add(script_witness(0, &rng.bytes(20)), "p2wpkh", &mut entries),
                3 => add(script_witness(0, &rng.bytes(32)), "p2wsh", &mut entries),
                _ => add(script_witness(1, &rng.bytes(32)), "p2tr", &mut entries),
            };
        }
        let mut by_script = BTreeMap::new();
        for e in &entries {
            if let Some(a) = &e.address {
                by_script.insert(e.script.clone(), a.clone());
            }
        }
        // Addresses of another network / malformed strings.
        let other = match net {
            Network::Mainnet => Network::Regtest,
            _ => Network::Mainnet,
        };
        let mut bad_addresses = vec![
            address_of(&script_witness(0, &rng.bytes(20)), other).unwrap(),
            address_of(&script_witness(1, &rng.bytes(32)), other).unwrap(),
            "".to_string(),
            "not-an-address".to_string(),
        ];
        // A valid address with one character changed (checksum failure).
        let mut broken = entries[p2wpkh].address.clone().unwrap().into_bytes();
        let last = broken.len() - 1;
        broken[last] = if broken[last] == b'q' { b'p' } else { b'q' };
        bad_addresses.push(String::from_utf8(broken).unwrap());
        if net == Network::Mainnet {
            bad_addresses.push(address_of(&script_p2pkh(&rng.bytes(20)), Network::Testnet).unwrap());
        }
        Wallet {
            entries,
            by_script,
            prefix_pairs,
            bad_addresses,
        }
    }

    pub fn addresses(&self) -> Vec<String> {
        self.entries.iter().filter_map(|e| e.address.clone()).collect()
    }
}

#[derive(Clone, Copy, Debug, PartialEq, Eq, Serialize, Deserialize)]
pub enum Mutation {
    None,
    /// nonce that misses the declared target (regtest only: real proof of work)
    BadNonce,
    /// time = median-time-past + delta (delta <= 0 is invalid)
    TimeMtp(i8),
    /// time = now + 7200 + delta seconds at mining time (delta > 0 invalid until the clock passes)
    TimeFuture(i16),
    /// bits differ from what consensus requires (but do not exceed the maximum)
    WrongBits,
    /// bits above the network maximum
    BitsAboveMax,
    /// bits copied from the parent (wrong exactly where consensus requires a change)
    ParentBits,
    /// minimum-difficulty bits (wrong unless the 20-minute rule or the cap applies)
    LimitBits,
    NoTransactions,
    NoCoinbase,
    BadMerkleRoot,
    /// the last transaction appears twice (merkle root recomputed: "duplicate transaction")
    DuplicateTx,
    /// CVE-2012-2459: duplicate the tail so that the merkle root is preserved
    MerkleTailDup,
}

#[derive(Clone, Copy, Debug, PartialEq, Eq, Serialize, Deserialize)]
pub enum Special {
    None,
    /// one transaction with `n` outputs to wallet entry `to`
    ManyOutputs { n: u16, to: u8 },
    /// `n` tiny fee-paying transactions (fee window tests)
    ManyTxs { n: u16 },
    /// coinbase with a single OP_RETURN output (keeps ledgers tiny on very long chains)
    BareCoinbase,
}

#[derive(Clone, Debug, PartialEq, Eq, Serialize, Deserialize)]
pub struct MineSpec {
    pub id: usize,
    pub parent: usize,
    pub seed: u64,
    pub ntx: u8,
    /// seconds added to the parent's time (the result is raised to median-time-past + 1)
    pub dt: u32,
    /// 0 = natural difficulty of the header's target, else H5 override
    pub difficulty: u64,
    pub special: Special,
    pub mutation: Mutation,
    /// probability (in 1/16) that a transaction is copied from a competing fork
    pub remine: u8,
}

#[derive(Clone, Debug)]
pub struct NetBlock {
    pub id: usize,
    pub parent: Option<usize>,
    pub height: u32,
    pub block: Block,
    pub hash: Hash32,
    pub bytes: Vec<u8>,
    pub difficulty: u128,
    pub difficulty_overridden: bool,
    pub mutation: Mutation,
    /// ledger after this block on its own chain (None if the block is not transaction-valid)
    pub ledger: Option<Rc<Ledger>>,
    pub fees: Vec<(u64, u64)>,
    pub refs: BTreeMap<OutP, u32>,
}

impl NetBlock {
    /// True if the block is consensus-valid by construction (unmutated, or mutated only to a
    /// boundary value that is still valid), i.e. what an honest adapter relays.
    pub fn is_honest(&self) -> bool {
        match self.mutation {
            Mutation::None => true,
            Mutation::TimeMtp(d) => d >= 1,
            Mutation::TimeFuture(d) => d <= 0,
            _ => false,
        }
    }

    pub fn header(&self) -> &Header {
        &self.block.header
    }
    pub fn header_bytes(&self) -> Vec<u8> {
        bitcoin::consensus::serialize(&self.block.header)
    }
}

pub struct BtcNet {
    pub network: Network,
    pub blocks: BTreeMap<usize, NetBlock>,
    pub by_hash: BTreeMap<Hash32, usize>,
    pub children: BTreeMap<usize, Vec<usize>>,
    hdr_cache: std::cell::RefCell<Vec<(usize, Rc<Vec<Header>>)>>,
    pub wallet: Wallet,
    pub real_pow: bool,
}

fn natural_difficulty(bits: CompactTarget, net: Network) -> u128 {
    rules::difficulty_of_bits(bits.to_consensus(), net)
}

impl BtcNet {
    pub fn new(network: Network, wallet: Wallet) -> BtcNet {
        let genesis = bitcoin::blockdata::constants::genesis_block(btc_network(network));
        let applied = model::apply_block(&Ledger::new(), &genesis, 0).expect("genesis applies");
        let hash = genesis.block_hash().to_byte_array();
        let nb = NetBlock {
            id: 0,
            parent: None,
            height: 0,
            bytes: bitcoin::consensus::serialize(&genesis),
            difficulty: natural_difficulty(genesis.header.bits, network),
            difficulty_overridden: false,
            block: genesis,
            hash,
            mutation: Mutation::None,
            ledger: Some(Rc::new(applied.ledger)),
            fees: applied.fees,
            refs: applied.refs,
        };
        let mut blocks = BTreeMap::new();
        let mut by_hash = BTreeMap::new();
        by_hash.insert(hash, 0);
        blocks.insert(0, nb);
        BtcNet {
            network,
            blocks,
            by_hash,
            children: BTreeMap::new(),
            hdr_cache: std::cell::RefCell::new(vec![]),
            wallet,
            real_pow: network == Network::Regtest,
        }
    }

    pub fn get(&self, id: usize) -> Option<&NetBlock> {
        self.blocks.get(&id)
    }

    pub fn children_of(&self, id: usize) -> Vec<usize> {
        self.children.get(&id).cloned().unwrap_or_default()
    }

    /// Chain genesis ..= id as block ids.
    pub fn chain_to(&self, id: usize) -> Vec<usize> {
        let mut v = vec![id];
        let mut cur = id;
        while let Some(p) = self.blocks[&cur].parent {
            v.push(p);
            cur = p;
        }
        v.reverse();
        v
    }

    /// Headers genesis ..= id. Cached for the most recently used tips (long chains would
    /// otherwise pay O(height) map lookups per call).
    pub fn headers_to(&self, id: usize) -> Vec<Header> {
        let mut cache = self.hdr_cache.borrow_mut();
        if let Some((_, v)) = cache.iter().find(|(k, _)| *k == id) {
            return (**v).clone();
        }
        let built: Vec<Header> = match self.blocks[&id].parent {
            Some(p) => match cache.iter().find(|(k, _)| *k == p) {
                Some((_, pv)) => {
                    let mut v = (**pv).clone();
                    v.push(self.blocks[&id].block.header);
                    v
                }
                None => self.chain_to(id).iter().map(|i| self.blocks[i].block.header).collect(),
            },
            None => vec![self.blocks[&id].block.header],
        };
        if cache.len() >= 12 {
            cache.remove(0);
        }
        cache.push((id, Rc::new(built.clone())));
        built
    }

    fn coinbase(&self, spec: &MineSpec, height: u32, rng: &mut Rng) -> Transaction {
        let mut sig = vec![];
        push_slice(&mut sig, &height.to_le_bytes());
        push_slice(&mut sig, &(spec.id as u64).to_le_bytes());
        push_slice(&mut sig, &spec.seed.to_le_bytes());
        let mut output = vec![];
        if spec.special == Special::BareCoinbase {
            let mut s = vec![0x6a];
            push_slice(&mut s, &rng.bytes(8));
            return Transaction {
                version: TxVersion::TWO,
                lock_time: LockTime::ZERO,
                input: vec![TxIn {
                    previous_output: OutPoint::null(),
                    script_sig: ScriptBuf::from_bytes(sig),
                    sequence: Sequence::MAX,
                    witness: Witness::new(),
                }],
                output: vec![TxOut {
                    value: Amount::from_sat(0),
                    script_pubkey: ScriptBuf::from_bytes(s),
                }],
            };
        }
        let n = 1 + rng.below(2) as usize;
        let value = if rng.chance(1, 12) { 0 } else { 25_0000_0000 };
        for _ in 0..n {
            let e = rng.pick(&self.wallet.entries);
            output.push(TxOut {
                value: Amount::from_sat(value),
                script_pubkey: ScriptBuf::from_bytes(e.script.clone()),
            });
        }
        if rng.chance(1, 4) {
            let mut s = vec![0x6a];
            push_slice(&mut s, &rng.bytes(20));
            output.push(TxOut {
                value: Amount::from_sat(0),
                script_pubkey: ScriptBuf::from_bytes(s),
            });
        }
        Transaction {
            version: TxVersion::TWO,
            lock_time: LockTime::ZERO,
            input: vec![TxIn {
                previous_output: OutPoint::null(),
                script_sig: ScriptBuf::from_bytes(sig),
                sequence: Sequence::MAX,
                witness: Witness::new(),
            }],
            output,
        }
    }

    fn random_output(&self, value: u64, rng: &mut Rng) -> TxOut {
        if rng.chance(1, 12) {
            let mut s = vec![0x6a];
            push_slice(&mut s, &rng.bytes_between(1, 30));
            return TxOut {
                value: Amount::from_sat(value),
                script_pubkey: ScriptBuf::from_bytes(s),
            };
        }
        let e = rng.pick(&self.wallet.entries);
        TxOut {
            value: Amount::from_sat(value),
            script_pubkey: ScriptBuf::from_bytes(e.script.clone()),
        }
    }

    /// Builds the transactions of a block on top of `ledger` (the parent's ledger).
    fn build_txs(&self, spec: &MineSpec, height: u32, ledger: &Ledger, rng: &mut Rng) -> Vec<Transaction> {
        let mut txs = vec![self.coinbase(spec, height, rng)];
        if spec.ntx == 0 && matches!(spec.special, Special::None | Special::BareCoinbase) {
            return txs;
        }
        // Spendable pool: (outpoint, value); excludes the genesis coinbase.
        let genesis_txid = model::txid_of(&self.blocks[&0].block.txdata[0]);
        let mut pool: Vec<(OutP, u64)> = ledger
            .iter()
            .filter(|(op, _)| op.txid != genesis_txid)
            .map(|(op, c)| (op.clone(), c.value))
            .collect();
        let mut used_txids: Vec<Hash32> = vec![model::txid_of(&txs[0])];

        // Candidates for re-mining: transactions of blocks that are not ancestors.
        let remine_candidates: Vec<&Transaction> = if spec.remine > 0 {
            let ancestors = self.chain_to(spec.parent);
            self.blocks
                .values()
                .filter(|b| !ancestors.contains(&b.id) && b.is_honest())
                .flat_map(|b| b.block.txdata.iter().skip(1))
                .collect()
        } else {
            vec![]
        };

        let mut make_tx = |pool: &mut Vec<(OutP, u64)>,
                           n_in: usize,
                           outs: Vec<(Option<usize>, u64)>,
                           fee: u64,
                           segwit: bool,
                           rng: &mut Rng|
         -> Option<Transaction> {
            if pool.len() < n_in || n_in == 0 {
                return None;
            }
            let mut input = vec![];
            let mut in_sum = 0u64;
            for _ in 0..n_in {
                let k = rng.usize_below(pool.len());
                let (op, v) = pool.swap_remove(k);
                in_sum += v;
                let mut witness = Witness::new();
                if segwit {
                    witness.push(rng.bytes_between(1, 72));
                    witness.push(rng.bytes(33));
                }
                input.push(TxIn {
                    previous_output: OutPoint {
                        txid: Txid::from_byte_array(op.txid),
                        vout: op.vout,
                    },
                    script_sig: if segwit {
                        ScriptBuf::new()
                    } else {
                        ScriptBuf::from_bytes({
                            let mut s = vec![];
                            push_slice(&mut s, &rng.bytes_between(1, 70));
                            s
                        })
                    },
                    sequence: Sequence::MAX,
                    witness,
                });
            }
            let fee = fee.min(in_sum);
            let spend = in_sum - fee;
            let total_w: u64 = outs.iter().map(|(_, w)| *w).sum::<u64>().max(1);
            let mut output = vec![];
            let mut left = spend;
            let n_out = outs.len();
            for (i, (to, w)) in outs.iter().enumerate() {
                let v = if i + 1 == n_out {
                    left
                } else {
                    (spend as u128 * *w as u128 / total_w as u128) as u64
                };
                let v = v.min(left);
                left -= v;
                output.push(match to {
                    Some(idx) => TxOut {
                        value: Amount::from_sat(v),
                        script_pubkey: ScriptBuf::from_bytes(self.wallet.entries[*idx].script.clone()),
                    },
                    None => self.random_output(v, rng),
                });
            }
            Some(Transaction {
                version: TxVersion::TWO,
                lock_time: LockTime::ZERO,
                input,
                output,
            })
        };

        let mut push_tx = |tx: Transaction, pool: &mut Vec<(OutP, u64)>, txs: &mut Vec<Transaction>, used: &mut Vec<Hash32>| {
            let txid = model::txid_of(&tx);
            if used.contains(&txid) {
                return;
            }
            used.push(txid);
            for (vout, o) in tx.output.iter().enumerate() {
                if !o.script_pubkey.is_op_return() {
                    pool.push((
                        OutP {
                            txid,
                            vout: vout as u32,
                        },
                        o.value.to_sat(),
                    ));
                }
            }
            txs.push(tx);
        };

        match spec.special {
            Special::ManyOutputs { n, to } => {
                let to = to as usize % self.wallet.entries.len();
                let outs: Vec<(Option<usize>, u64)> = (0..n).map(|_| (Some(to), 1)).collect();
                if let Some(tx) = make_tx(&mut pool, 1, outs, 1000, false, rng) {
                    push_tx(tx, &mut pool, &mut txs, &mut used_txids);
                }
            }
            Special::ManyTxs { n } => {
                for _ in 0..n {
                    let fee = rng.below(5000);
                    let segwit = rng.chance(1, 2);
                    if let Some(tx) = make_tx(&mut pool, 1, vec![(None, 1)], fee, segwit, rng) {
                        push_tx(tx, &mut pool, &mut txs, &mut used_txids);
                    }
                }
            }
            Special::None | Special::BareCoinbase => {}
        }

        for _ in 0..spec.ntx {
            // Re-mine a transaction from a competing fork if its inputs are available here.
            if !remine_candidates.is_empty() && rng.below(16) < spec.remine as u64 {
                let tx = *rng.pick(&remine_candidates);
                let ins: Vec<OutP> = tx
                    .input
                    .iter()
                    .map(|i| OutP {
                        txid: i.previous_output.txid.to_byte_array(),
                        vout: i.previous_output.vout,
                    })
                    .collect();
                let all = ins.iter().all(|op| pool.iter().any(|(p, _)| p == op));
                let distinct = {
                    let mut s = ins.clone();
                    s.sort();
                    s.dedup();
                    s.len() == ins.len()
                };
                if all && distinct && !used_txids.contains(&model::txid_of(tx)) {
                    pool.retain(|(p, _)| !ins.contains(p));
                    push_tx(tx.clone(), &mut pool, &mut txs, &mut used_txids);
                    continue;
                }
            }
            let n_in = 1 + rng.geometric(2) as usize;
            let n_out = 1 + rng.geometric(3) as usize;
            let outs: Vec<(Option<usize>, u64)> = (0..n_out)
                .map(|_| (None, if rng.chance(1, 8) { 0 } else { 1 + rng.below(9) }))
                .collect();
            let fee = match rng.below(4) {
                0 => 0,
                1 => rng.below(300),
                _ => rng.below(200_000),
            };
            let segwit = rng.chance(1, 2);
            if let Some(tx) = make_tx(&mut pool, n_in, outs, fee, segwit, rng) {
                push_tx(tx, &mut pool, &mut txs, &mut used_txids);
            }
        }
        txs
    }

    /// Mines a block according to `spec`. `now` is the simulated clock in seconds.
    /// Returns `None` if the parent does not exist (dangling reference in a shrunk trace)
    /// or the id is taken.
    pub fn mine(&mut self, spec: &MineSpec, now: u64) -> Option<usize> {
        if self.blocks.contains_key(&spec.id) {
            return None;
        }
        let parent = self.blocks.get(&spec.parent)?;
        // Children of blocks that are not transaction-valid get coinbase-only bodies.
        let parent_ledger: Rc<Ledger> = match &parent.ledger {
            Some(l) => l.clone(),
            None => Rc::new(Ledger::new()),
        };
        let height = parent.height + 1;
        let mut rng = Rng::new(spec.seed);
        let mut txs = self.build_txs(spec, height, &parent_ledger, &mut rng);

        let headers = self.headers_to(spec.parent);
        let mtp = rules::median_time_past(&headers);
        let mut time = (parent.block.header.time as u64 + spec.dt as u64).max(mtp as u64 + 1);
        match spec.mutation {
            Mutation::TimeMtp(d) => time = (mtp as i64 + d as i64).max(0) as u64,
            Mutation::TimeFuture(d) => time = (now as i64 + 7200 + d as i64).max(mtp as i64 + 1) as u64,
            _ => {}
        }
        let time = time.min(u32::MAX as u64) as u32;
        let mut bits = rules::required_bits(&headers, time, self.network);
        match spec.mutation {
            Mutation::WrongBits => {
                bits = rules::perturb_bits(bits, self.network);
            }
            Mutation::BitsAboveMax => {
                bits = rules::bits_above_max(self.network);
            }
            Mutation::ParentBits => {
                bits = parent.block.header.bits.to_consensus();
            }
            Mutation::LimitBits => {
                bits = rules::pow_limit_bits(self.network);
            }
            _ => {}
        }
        match spec.mutation {
            Mutation::NoTransactions => txs.clear(),
            Mutation::NoCoinbase => {
                txs.remove(0);
                if txs.is_empty() {
                    // a lone non-coinbase transaction spending nothing real
                    txs.push(Transaction {
                        version: TxVersion::TWO,
                        lock_time: LockTime::ZERO,
                        input: vec![TxIn {
                            previous_output: OutPoint {
                                txid: Txid::from_byte_array([7u8; 32]),
                                vout: 0,
                            },
                            script_sig: ScriptBuf::new(),
                            sequence: Sequence::MAX,
                            witness: Witness::new(),
                        }],
                        output: vec![self.random_output(1, &mut rng)],
                    });
                }
            }
            Mutation::DuplicateTx => {
                let last = txs.last().unwrap().clone();
                txs.push(last);
            }
            _ => {}
        }
        let mut block = Block {
            header: Header {
                version: Version::from_consensus(0x2000_0000),
                prev_blockhash: bitcoin::BlockHash::from_byte_array(parent.hash),
                merkle_root: TxMerkleNode::all_zeros(),
                time,
                bits: CompactTarget::from_consensus(bits),
                nonce: (spec.seed as u32) ^ (spec.id as u32).wrapping_mul(2654435761),
            },
            txdata: txs,
        };
        block.header.merkle_root = block.compute_merkle_root().unwrap_or(TxMerkleNode::all_zeros());
        match spec.mutation {
            Mutation::BadMerkleRoot => {
                let mut r = block.header.merkle_root.to_byte_array();
                r[0] ^= 1;
                block.header.merkle_root = TxMerkleNode::from_byte_array(r);
            }
            Mutation::MerkleTailDup => {
                // With an odd number of transactions the last hash is paired with itself, so
                // appending a copy of the last transaction preserves the root.
                if block.txdata.len() % 2 == 0 {
                    // make it odd first: add one more distinct transaction via a second coinbase-like
                    // output split is not possible here; instead duplicate the last two.
                    let n = block.txdata.len();
                    if n >= 2 && (n / 2) % 2 == 1 {
                        let a = block.txdata[n - 2].clone();
                        let b = block.txdata[n - 1].clone();
                        block.txdata.push(a);
                        block.txdata.push(b);
                    } else {
                        let last = block.txdata.last().unwrap().clone();
                        block.txdata.push(last);
                        block.header.merkle_root =
                            block.compute_merkle_root().unwrap_or(TxMerkleNode::all_zeros());
                    }
                } else {
                    let last = block.txdata.last().unwrap().clone();
                    block.txdata.push(last);
                }
            }
            _ => {}
        }
        // Proof of work.
        if self.real_pow {
            let target = block.header.target();
            let want_bad = spec.mutation == Mutation::BadNonce;
            let mut tries = 0u32;
            loop {
                let ok = block.header.validate_pow(target).is_ok();
                if ok != want_bad {
                    break;
                }
                block.header.nonce = block.header.nonce.wrapping_add(1);
                tries += 1;
                if tries > 5_000_000 {
                    return None; // cannot satisfy (e.g. bad bits with tiny target); skip event
                }
            }
        }
        let hash = block.block_hash().to_byte_array();
        if self.by_hash.contains_key(&hash) {
            return None;
        }
        let applied = model::apply_block(&parent_ledger, &block, height).ok();
        let (ledger, fees, refs) = match (applied, &parent.ledger) {
            (Some(a), Some(_)) => (Some(Rc::new(a.ledger)), a.fees, a.refs),
            _ => (None, vec![], BTreeMap::new()),
        };
        let difficulty_overridden = spec.difficulty != 0;
        let difficulty = if difficulty_overridden {
            spec.difficulty as u128
        } else {
            natural_difficulty(block.header.bits, self.network)
        };
        let nb = NetBlock {
            id: spec.id,
            parent: Some(spec.parent),
            height,
            bytes: bitcoin::consensus::serialize(&block),
            block,
            hash,
            difficulty,
            difficulty_overridden,
            mutation: spec.mutation,
            ledger,
            fees,
            refs,
        };
        self.by_hash.insert(hash, spec.id);
        self.children.entry(spec.parent).or_default().push(spec.id);
        self.blocks.insert(spec.id, nb);
        Some(spec.id)
    }
}
