//! Known findings: genuine defects recorded (not repaired) in /verif/known_findings.json.
//! The file is read-only at run time. A violation is attributed to an open finding only if
//! property, violation kind and (if given) a detail substring all match; anything else of the
//! same property is still reported as a VIOLATION.

use crate::trace::Violation;
use serde_json::json;

#[derive(Clone, Debug)]
pub struct KnownFinding {
    pub status: String,
    pub property: String,
    pub id: String,
    pub title: String,
    pub kind: String,
    pub detail_contains: Option<String>,
}

pub fn verif_dir() -> std::path::PathBuf {
    std::env::var("VERIF_DIR").map(Into::into).unwrap_or_else(|_| "/verif".into())
}

pub fn load_known_findings() -> Vec<KnownFinding> {
    if std::env::var("BTCSIM_IGNORE_KNOWN").is_ok() {
        return vec![];
    }
    let p = verif_dir().join("known_findings.json");
    let Ok(s) = std::fs::read_to_string(&p) else {
        return vec![];
    };
    let v: serde_json::Value = serde_json::from_str(&s).unwrap_or(json!({}));
    v["findings"]
        .as_array()
        .cloned()
        .unwrap_or_default()
        .iter()
        .map(|f| KnownFinding {
            status: f["status"].as_str().unwrap_or("").to_string(),
            property: f["property"].as_str().unwrap_or("").to_string(),
            id: f["id"].as_str().unwrap_or("").to_string(),
            title: f["title"].as_str().unwrap_or("").to_string(),
            kind: f["signature"]["kind"].as_str().unwrap_or("").to_string(),
            detail_contains: f["signature"]["detail_contains"].as_str().map(|s| s.to_string()),
        })
        .collect()
}

pub fn matches_known(v: &Violation, kf: &[KnownFinding]) -> Option<KnownFinding> {
    kf.iter()
        .find(|k| {
            k.status == "open"
                && k.property == v.property
                && k.kind == v.kind
                && k.detail_contains.as_ref().map(|d| v.detail.contains(d)).unwrap_or(true)
        })
        .cloned()
}
